//! The harness's own view of a Rust type: an AST that is independent from `rustdoc_ir::Type`,
//! conversions in both directions (using nothing but public fields), an independent
//! pretty-printer, the reference notions of "equal up to lifetimes", "equal up to a bijective
//! renaming of generic parameters and lifetimes", exact first-order matching, and a structural
//! diff that names the first difference (used as `sig.cause`).

use std::collections::BTreeMap;
use std::fmt::Write as _;

use rustdoc_ir as ir;
use rustdoc_types::Abi;

#[derive(Clone, PartialEq, Eq, Hash, Debug, PartialOrd, Ord)]
pub enum Lt {
    Static,
    Named(String),
    Inferred,
    Elided,
}

#[derive(Clone, PartialEq, Eq, Hash, Debug, PartialOrd, Ord)]
pub enum GLt {
    Static,
    Named(String),
    Inferred,
}

#[derive(Clone, PartialEq, Eq, Hash, Debug, PartialOrd, Ord)]
pub enum Arg {
    Ty(Ty),
    Lt(GLt),
    Const(String),
}

#[derive(Clone, Copy, PartialEq, Eq, Hash, Debug, PartialOrd, Ord)]
pub enum AbiK {
    Rust,
    C,
    CUnwind,
    Cdecl,
    CdeclUnwind,
    Stdcall,
    StdcallUnwind,
    Fastcall,
    FastcallUnwind,
    Aapcs,
    AapcsUnwind,
    Win64,
    Win64Unwind,
    SysV64,
    SysV64Unwind,
    System,
    SystemUnwind,
    Vectorcall,
}

/// Every ABI the reflection IR can represent (both unwind flavours), plus one that it keeps as a free-form string.
pub const ALL_ABIS: [AbiK; 18] = [
    AbiK::Rust,
    AbiK::C,
    AbiK::CUnwind,
    AbiK::Cdecl,
    AbiK::CdeclUnwind,
    AbiK::Stdcall,
    AbiK::StdcallUnwind,
    AbiK::Fastcall,
    AbiK::FastcallUnwind,
    AbiK::Aapcs,
    AbiK::AapcsUnwind,
    AbiK::Win64,
    AbiK::Win64Unwind,
    AbiK::SysV64,
    AbiK::SysV64Unwind,
    AbiK::System,
    AbiK::SystemUnwind,
    AbiK::Vectorcall,
];

impl AbiK {
    /// What Rust source spells inside `extern "..."` (None: plain `fn`); written from the Rust reference
    /// ("External blocks / ABI"), independently of the implementation's table.
    pub fn source(self) -> Option<&'static str> {
        match self {
            AbiK::Rust => None,
            AbiK::C => Some("C"),
            AbiK::CUnwind => Some("C-unwind"),
            AbiK::Cdecl => Some("cdecl"),
            AbiK::CdeclUnwind => Some("cdecl-unwind"),
            AbiK::Stdcall => Some("stdcall"),
            AbiK::StdcallUnwind => Some("stdcall-unwind"),
            AbiK::Fastcall => Some("fastcall"),
            AbiK::FastcallUnwind => Some("fastcall-unwind"),
            AbiK::Aapcs => Some("aapcs"),
            AbiK::AapcsUnwind => Some("aapcs-unwind"),
            AbiK::Win64 => Some("win64"),
            AbiK::Win64Unwind => Some("win64-unwind"),
            AbiK::SysV64 => Some("sysv64"),
            AbiK::SysV64Unwind => Some("sysv64-unwind"),
            AbiK::System => Some("system"),
            AbiK::SystemUnwind => Some("system-unwind"),
            AbiK::Vectorcall => Some("vectorcall"),
        }
    }
    pub fn to_ir(self) -> Abi {
        match self {
            AbiK::Rust => Abi::Rust,
            AbiK::C => Abi::C { unwind: false },
            AbiK::CUnwind => Abi::C { unwind: true },
            AbiK::Cdecl => Abi::Cdecl { unwind: false },
            AbiK::CdeclUnwind => Abi::Cdecl { unwind: true },
            AbiK::Stdcall => Abi::Stdcall { unwind: false },
            AbiK::StdcallUnwind => Abi::Stdcall { unwind: true },
            AbiK::Fastcall => Abi::Fastcall { unwind: false },
            AbiK::FastcallUnwind => Abi::Fastcall { unwind: true },
            AbiK::Aapcs => Abi::Aapcs { unwind: false },
            AbiK::AapcsUnwind => Abi::Aapcs { unwind: true },
            AbiK::Win64 => Abi::Win64 { unwind: false },
            AbiK::Win64Unwind => Abi::Win64 { unwind: true },
            AbiK::SysV64 => Abi::SysV64 { unwind: false },
            AbiK::SysV64Unwind => Abi::SysV64 { unwind: true },
            AbiK::System => Abi::System { unwind: false },
            AbiK::SystemUnwind => Abi::System { unwind: true },
            AbiK::Vectorcall => Abi::Other("vectorcall".to_string()),
        }
    }
    pub fn from_ir(a: &Abi) -> Option<AbiK> {
        ALL_ABIS.iter().copied().find(|k| &k.to_ir() == a)
    }
}

pub const SCALARS: [&str; 17] = [
    "usize", "u8", "u16", "u32", "u64", "u128", "isize", "i8", "i16", "i32", "i64", "i128", "f32",
    "f64", "bool", "char", "str",
];

#[derive(Clone, PartialEq, Eq, Hash, Debug, PartialOrd, Ord)]
pub enum Ty {
    Path {
        alias: bool,
        pkg: String,
        id: Option<u32>,
        segs: Vec<String>,
        args: Vec<Arg>,
    },
    Ref {
        mutable: bool,
        lt: Lt,
        inner: Box<Ty>,
    },
    Tuple(Vec<Ty>),
    /// index into `SCALARS`
    Scalar(usize),
    Slice(Box<Ty>),
    Array(Box<Ty>, usize),
    Ptr {
        mutable: bool,
        inner: Box<Ty>,
    },
    Fn {
        inputs: Vec<(Option<String>, Ty)>,
        output: Option<Box<Ty>>,
        abi: AbiK,
        unsafe_: bool,
    },
    Generic(String),
}

// ------------------------------------------------------------------------------------ conversions

fn scalar_to_ir(i: usize) -> ir::ScalarPrimitive {
    use ir::ScalarPrimitive as S;
    match SCALARS[i] {
        "usize" => S::Usize,
        "u8" => S::U8,
        "u16" => S::U16,
        "u32" => S::U32,
        "u64" => S::U64,
        "u128" => S::U128,
        "isize" => S::Isize,
        "i8" => S::I8,
        "i16" => S::I16,
        "i32" => S::I32,
        "i64" => S::I64,
        "i128" => S::I128,
        "f32" => S::F32,
        "f64" => S::F64,
        "bool" => S::Bool,
        "char" => S::Char,
        "str" => S::Str,
        _ => unreachable!(),
    }
}

fn scalar_from_ir(s: &ir::ScalarPrimitive) -> usize {
    use ir::ScalarPrimitive as S;
    // deliberately not via `as_str()`: the mapping is spelled out a second time
    let name = match s {
        S::Usize => "usize",
        S::U8 => "u8",
        S::U16 => "u16",
        S::U32 => "u32",
        S::U64 => "u64",
        S::U128 => "u128",
        S::Isize => "isize",
        S::I8 => "i8",
        S::I16 => "i16",
        S::I32 => "i32",
        S::I64 => "i64",
        S::I128 => "i128",
        S::F32 => "f32",
        S::F64 => "f64",
        S::Bool => "bool",
        S::Char => "char",
        S::Str => "str",
    };
    SCALARS.iter().position(|x| *x == name).unwrap()
}

impl Lt {
    fn to_ir(&self) -> ir::Lifetime {
        match self {
            Lt::Static => ir::Lifetime::Static,
            Lt::Named(n) => ir::Lifetime::Named(ir::NamedLifetime::new(n.clone())),
            Lt::Inferred => ir::Lifetime::Inferred,
            Lt::Elided => ir::Lifetime::Elided,
        }
    }
    fn from_ir(l: &ir::Lifetime) -> Lt {
        match l {
            ir::Lifetime::Static => Lt::Static,
            ir::Lifetime::Named(n) => Lt::Named(n.as_str().to_string()),
            ir::Lifetime::Inferred => Lt::Inferred,
            ir::Lifetime::Elided => Lt::Elided,
        }
    }
    pub fn is_static(&self) -> bool {
        matches!(self, Lt::Static)
    }
}

impl GLt {
    fn to_ir(&self) -> ir::GenericLifetimeParameter {
        match self {
            GLt::Static => ir::GenericLifetimeParameter::Static,
            GLt::Named(n) => {
                ir::GenericLifetimeParameter::Named(ir::NamedLifetime::new(n.clone()))
            }
            GLt::Inferred => ir::GenericLifetimeParameter::Inferred,
        }
    }
    fn from_ir(l: &ir::GenericLifetimeParameter) -> GLt {
        match l {
            ir::GenericLifetimeParameter::Static => GLt::Static,
            ir::GenericLifetimeParameter::Named(n) => GLt::Named(n.as_str().to_string()),
            ir::GenericLifetimeParameter::Inferred => GLt::Inferred,
        }
    }
    pub fn is_static(&self) -> bool {
        matches!(self, GLt::Static)
    }
}

impl Ty {
    pub fn to_ir(&self) -> ir::Type {
        match self {
            Ty::Path {
                alias,
                pkg,
                id,
                segs,
                args,
            } => {
                let p = ir::PathType {
                    package_id: guppy::PackageId::new(pkg.clone()),
                    rustdoc_id: id.map(rustdoc_types::Id),
                    base_type: segs.clone(),
                    generic_arguments: args
                        .iter()
                        .map(|a| match a {
                            Arg::Ty(t) => ir::GenericArgument::TypeParameter(t.to_ir()),
                            Arg::Lt(l) => ir::GenericArgument::Lifetime(l.to_ir()),
                            Arg::Const(c) => {
                                ir::GenericArgument::Const(ir::ConstGenericArgument {
                                    value: c.clone(),
                                })
                            }
                        })
                        .collect(),
                };
                if *alias {
                    ir::Type::TypeAlias(p)
                } else {
                    ir::Type::Path(p)
                }
            }
            Ty::Ref { mutable, lt, inner } => ir::Type::Reference(ir::TypeReference {
                is_mutable: *mutable,
                lifetime: lt.to_ir(),
                inner: Box::new(inner.to_ir()),
            }),
            Ty::Tuple(es) => ir::Type::Tuple(ir::Tuple {
                elements: es.iter().map(|e| e.to_ir()).collect(),
            }),
            Ty::Scalar(i) => ir::Type::ScalarPrimitive(scalar_to_ir(*i)),
            Ty::Slice(e) => ir::Type::Slice(ir::Slice {
                element_type: Box::new(e.to_ir()),
            }),
            Ty::Array(e, n) => ir::Type::Array(ir::Array {
                element_type: Box::new(e.to_ir()),
                len: *n,
            }),
            Ty::Ptr { mutable, inner } => ir::Type::RawPointer(ir::RawPointer {
                is_mutable: *mutable,
                inner: Box::new(inner.to_ir()),
            }),
            Ty::Fn {
                inputs,
                output,
                abi,
                unsafe_,
            } => ir::Type::FunctionPointer(ir::FunctionPointer {
                inputs: inputs
                    .iter()
                    .map(|(n, t)| ir::FunctionPointerInput {
                        name: n.clone(),
                        type_: t.to_ir(),
                    })
                    .collect(),
                output: output.as_ref().map(|o| Box::new(o.to_ir())),
                abi: abi.to_ir(),
                is_unsafe: *unsafe_,
            }),
            Ty::Generic(n) => ir::Type::Generic(ir::Generic { name: n.clone() }),
        }
    }

    /// Read a `rustdoc_ir::Type` back through its public fields. `Err` when it uses an ABI that
    /// the harness never generates (only possible for a replay file edited by hand).
    pub fn from_ir(t: &ir::Type) -> Result<Ty, String> {
        Ok(match t {
            ir::Type::Path(p) | ir::Type::TypeAlias(p) => Ty::Path {
                alias: matches!(t, ir::Type::TypeAlias(_)),
                pkg: p.package_id.repr().to_string(),
                id: p.rustdoc_id.map(|i| i.0),
                segs: p.base_type.clone(),
                args: p
                    .generic_arguments
                    .iter()
                    .map(|a| {
                        Ok(match a {
                            ir::GenericArgument::TypeParameter(t) => Arg::Ty(Ty::from_ir(t)?),
                            ir::GenericArgument::Lifetime(l) => Arg::Lt(GLt::from_ir(l)),
                            ir::GenericArgument::Const(c) => Arg::Const(c.value.clone()),
                        })
                    })
                    .collect::<Result<Vec<_>, String>>()?,
            },
            ir::Type::Reference(r) => Ty::Ref {
                mutable: r.is_mutable,
                lt: Lt::from_ir(&r.lifetime),
                inner: Box::new(Ty::from_ir(&r.inner)?),
            },
            ir::Type::Tuple(t) => Ty::Tuple(
                t.elements
                    .iter()
                    .map(Ty::from_ir)
                    .collect::<Result<Vec<_>, String>>()?,
            ),
            ir::Type::ScalarPrimitive(s) => Ty::Scalar(scalar_from_ir(s)),
            ir::Type::Slice(s) => Ty::Slice(Box::new(Ty::from_ir(&s.element_type)?)),
            ir::Type::Array(a) => Ty::Array(Box::new(Ty::from_ir(&a.element_type)?), a.len),
            ir::Type::RawPointer(r) => Ty::Ptr {
                mutable: r.is_mutable,
                inner: Box::new(Ty::from_ir(&r.inner)?),
            },
            ir::Type::FunctionPointer(fp) => Ty::Fn {
                inputs: fp
                    .inputs
                    .iter()
                    .map(|i| Ok((i.name.clone(), Ty::from_ir(&i.type_)?)))
                    .collect::<Result<Vec<_>, String>>()?,
                output: match &fp.output {
                    Some(o) => Some(Box::new(Ty::from_ir(o)?)),
                    None => None,
                },
                abi: AbiK::from_ir(&fp.abi).ok_or_else(|| format!("unknown abi {:?}", fp.abi))?,
                unsafe_: fp.is_unsafe,
            },
            ir::Type::Generic(g) => Ty::Generic(g.name.clone()),
        })
    }
}

// --------------------------------------------------------------------------------------- traversal

impl Ty {
    pub fn kind(&self) -> &'static str {
        match self {
            Ty::Path { alias: false, .. } => "path",
            Ty::Path { alias: true, .. } => "alias",
            Ty::Ref { .. } => "reference",
            Ty::Tuple(_) => "tuple",
            Ty::Scalar(_) => "scalar",
            Ty::Slice(_) => "slice",
            Ty::Array(..) => "array",
            Ty::Ptr { .. } => "raw_pointer",
            Ty::Fn { .. } => "fn_pointer",
            Ty::Generic(_) => "generic",
        }
    }

    pub fn children(&self) -> Vec<&Ty> {
        match self {
            Ty::Path { args, .. } => args
                .iter()
                .filter_map(|a| if let Arg::Ty(t) = a { Some(t) } else { None })
                .collect(),
            Ty::Ref { inner, .. } | Ty::Ptr { inner, .. } => vec![inner],
            Ty::Tuple(es) => es.iter().collect(),
            Ty::Slice(e) | Ty::Array(e, _) => vec![e],
            Ty::Fn { inputs, output, .. } => {
                let mut v: Vec<&Ty> = inputs.iter().map(|(_, t)| t).collect();
                if let Some(o) = output {
                    v.push(o);
                }
                v
            }
            Ty::Scalar(_) | Ty::Generic(_) => vec![],
        }
    }

    pub fn children_mut(&mut self) -> Vec<&mut Ty> {
        match self {
            Ty::Path { args, .. } => args
                .iter_mut()
                .filter_map(|a| if let Arg::Ty(t) = a { Some(t) } else { None })
                .collect(),
            Ty::Ref { inner, .. } | Ty::Ptr { inner, .. } => vec![inner],
            Ty::Tuple(es) => es.iter_mut().collect(),
            Ty::Slice(e) | Ty::Array(e, _) => vec![e],
            Ty::Fn { inputs, output, .. } => {
                let mut v: Vec<&mut Ty> = inputs.iter_mut().map(|(_, t)| t).collect();
                if let Some(o) = output {
                    v.push(o);
                }
                v
            }
            Ty::Scalar(_) | Ty::Generic(_) => vec![],
        }
    }

    pub fn depth(&self) -> usize {
        self.children()
            .iter()
            .map(|c| c.depth() + 1)
            .max()
            .unwrap_or(0)
    }

    pub fn size(&self) -> usize {
        1 + self.children().iter().map(|c| c.size()).sum::<usize>()
    }

    /// Pre-order visit of every node.
    pub fn visit<'a>(&'a self, f: &mut dyn FnMut(&'a Ty)) {
        f(self);
        for c in self.children() {
            c.visit(f);
        }
    }

    /// Pre-order mutable visit; when `f` returns `false` the children of that node are skipped.
    pub fn visit_mut(&mut self, f: &mut dyn FnMut(&mut Ty) -> bool) {
        if f(self) {
            for c in self.children_mut() {
                c.visit_mut(f);
            }
        }
    }

    /// Generic parameter names in order of first occurrence (pre-order, left to right).
    pub fn params(&self) -> Vec<String> {
        let mut v: Vec<String> = Vec::new();
        self.visit(&mut |t| {
            if let Ty::Generic(n) = t
                && !v.contains(n)
            {
                v.push(n.clone());
            }
        });
        v
    }

    pub fn has_generic(&self) -> bool {
        let mut b = false;
        self.visit(&mut |t| b |= matches!(t, Ty::Generic(_)));
        b
    }

    pub fn has_reference(&self) -> bool {
        let mut b = false;
        self.visit(&mut |t| b |= matches!(t, Ty::Ref { .. }));
        b
    }

    pub fn count(&self, pred: &dyn Fn(&Ty) -> bool) -> usize {
        let mut n = 0;
        self.visit(&mut |t| {
            if pred(t) {
                n += 1
            }
        });
        n
    }

    /// Apply `f` to the `k`-th node (pre-order) satisfying `pred`.
    pub fn mutate_nth(&mut self, pred: &dyn Fn(&Ty) -> bool, k: usize, f: &mut dyn FnMut(&mut Ty)) {
        let mut i = 0usize;
        let mut done = false;
        self.visit_mut(&mut |t| {
            if done {
                return false;
            }
            if pred(t) {
                if i == k {
                    f(t);
                    done = true;
                    return false;
                }
                i += 1;
            }
            true
        });
    }

    /// Simultaneous substitution of generic parameters.
    pub fn subst(&self, map: &BTreeMap<String, Ty>) -> Ty {
        let mut t = self.clone();
        t.visit_mut(&mut |n| {
            if let Ty::Generic(name) = n {
                if let Some(r) = map.get(name) {
                    *n = r.clone();
                }
                return false;
            }
            true
        });
        t
    }

    pub fn rename_generics(&self, map: &BTreeMap<String, String>) -> Ty {
        let m: BTreeMap<String, Ty> = map
            .iter()
            .map(|(k, v)| (k.clone(), Ty::Generic(v.clone())))
            .collect();
        self.subst(&m)
    }

    /// Visit every lifetime slot (reference lifetimes and lifetime generic arguments), pre-order.
    pub fn visit_lifetimes_mut(&mut self, f: &mut dyn FnMut(LtSlot<'_>)) {
        self.visit_mut(&mut |t| {
            match t {
                Ty::Ref { lt, .. } => f(LtSlot::Ref(lt)),
                Ty::Path { args, .. } => {
                    for a in args.iter_mut() {
                        if let Arg::Lt(l) = a {
                            f(LtSlot::Arg(l));
                        }
                    }
                }
                _ => {}
            }
            true
        });
    }

    pub fn lifetime_slots(&self) -> usize {
        let mut n = 0;
        let mut c = self.clone();
        c.visit_lifetimes_mut(&mut |_| n += 1);
        n
    }

    /// Skeleton: constructors and arities only (no names, scalars, lengths, mutability).
    pub fn skeleton(&self) -> String {
        let mut s = String::new();
        self.skel(&mut s);
        s
    }
    fn skel(&self, s: &mut String) {
        let c = match self {
            Ty::Path { alias: false, .. } => 'P',
            Ty::Path { alias: true, .. } => 'L',
            Ty::Ref { .. } => 'R',
            Ty::Tuple(_) => 'T',
            Ty::Scalar(_) => 's',
            Ty::Slice(_) => 'S',
            Ty::Array(..) => 'A',
            Ty::Ptr { .. } => 'W',
            Ty::Fn { .. } => 'F',
            Ty::Generic(_) => 'g',
        };
        s.push(c);
        if let Ty::Path { args, .. } = self {
            for a in args {
                match a {
                    Arg::Lt(_) => s.push('\''),
                    Arg::Const(_) => s.push('#'),
                    Arg::Ty(_) => {}
                }
            }
        }
        let ch = self.children();
        if !ch.is_empty() {
            s.push('(');
            for c in ch {
                c.skel(s);
            }
            s.push(')');
        }
    }
}

pub enum LtSlot<'a> {
    Ref(&'a mut Lt),
    Arg(&'a mut GLt),
}

// ------------------------------------------------------------------------------ independent printer

#[derive(Clone, Copy, PartialEq, Eq, Debug)]
pub enum PrintMode {
    /// crate name looked up from the package id, lifetimes as they are
    Source,
    /// crate name looked up, named lifetimes replaced by `'_`
    Erased,
    /// all path segments as they are
    Direct,
}

impl Ty {
    /// Independent pretty-printer: Rust type syntax written from the language reference, not from
    /// `render.rs`. Single-element tuples carry their trailing comma.
    pub fn print(&self, mode: PrintMode, crate_name: &dyn Fn(&str) -> String) -> String {
        let mut s = String::new();
        self.pp(mode, crate_name, &mut s);
        s
    }

    fn pp(&self, mode: PrintMode, cn: &dyn Fn(&str) -> String, s: &mut String) {
        match self {
            Ty::Path {
                pkg, segs, args, ..
            } => {
                match mode {
                    PrintMode::Direct => s.push_str(&segs.join(" :: ")),
                    _ => {
                        s.push_str(&cn(pkg));
                        for seg in &segs[1..] {
                            s.push_str(" :: ");
                            s.push_str(seg);
                        }
                    }
                }
                if !args.is_empty() {
                    s.push_str(" < ");
                    for (i, a) in args.iter().enumerate() {
                        if i > 0 {
                            s.push_str(" , ");
                        }
                        match a {
                            Arg::Ty(t) => t.pp(mode, cn, s),
                            Arg::Lt(GLt::Static) => s.push_str("'static"),
                            Arg::Lt(GLt::Inferred) => s.push_str("'_"),
                            Arg::Lt(GLt::Named(n)) => {
                                if mode == PrintMode::Erased {
                                    s.push_str("'_")
                                } else {
                                    write!(s, "'{n}").unwrap()
                                }
                            }
                            Arg::Const(c) => s.push_str(c),
                        }
                    }
                    s.push_str(" >");
                }
            }
            Ty::Ref { mutable, lt, inner } => {
                s.push('&');
                match lt {
                    Lt::Static => s.push_str(" 'static "),
                    Lt::Inferred => s.push_str(" '_ "),
                    Lt::Named(n) => {
                        if mode == PrintMode::Erased {
                            s.push_str(" '_ ")
                        } else {
                            write!(s, " '{n} ").unwrap()
                        }
                    }
                    Lt::Elided => s.push(' '),
                }
                if *mutable {
                    s.push_str("mut ");
                }
                inner.pp(mode, cn, s);
            }
            Ty::Tuple(es) => {
                s.push('(');
                for e in es {
                    e.pp(mode, cn, s);
                    s.push_str(" ,");
                }
                if es.len() >= 2 {
                    // drop the trailing comma again for arity >= 2 (both spellings are the same
                    // type; the arity-1 comma is the one that matters)
                    s.pop();
                    s.pop();
                }
                s.push(')');
            }
            Ty::Scalar(i) => s.push_str(SCALARS[*i]),
            Ty::Slice(e) => {
                s.push_str("[ ");
                e.pp(mode, cn, s);
                s.push_str(" ]");
            }
            Ty::Array(e, n) => {
                s.push_str("[ ");
                e.pp(mode, cn, s);
                write!(s, " ; {n} ]").unwrap();
            }
            Ty::Ptr { mutable, inner } => {
                s.push_str(if *mutable { "* mut " } else { "* const " });
                inner.pp(mode, cn, s);
            }
            Ty::Fn {
                inputs,
                output,
                abi,
                unsafe_,
            } => {
                if *unsafe_ {
                    s.push_str("unsafe ");
                }
                if let Some(a) = abi.source() {
                    write!(s, "extern \"{a}\" ").unwrap();
                }
                s.push_str("fn (");
                for (i, (n, t)) in inputs.iter().enumerate() {
                    if i > 0 {
                        s.push_str(" , ");
                    }
                    if let Some(n) = n {
                        write!(s, "{n} : ").unwrap();
                    }
                    t.pp(mode, cn, s);
                }
                s.push(')');
                if let Some(o) = output {
                    s.push_str(" -> ");
                    o.pp(mode, cn, s);
                }
            }
            Ty::Generic(n) => s.push_str(n),
        }
    }

    /// Short human-readable form for evidence/witnesses (direct paths).
    pub fn show(&self) -> String {
        let mut s = String::new();
        self.show_into(&mut s);
        s
    }
    fn show_into(&self, s: &mut String) {
        match self {
            Ty::Path {
                alias, segs, args, pkg, ..
            } => {
                if *alias {
                    s.push_str("alias:");
                }
                s.push_str(&segs.join("::"));
                // disambiguate same path in different packages
                if pkg.contains("0.2.0") {
                    s.push_str("@0.2.0");
                }
                if !args.is_empty() {
                    s.push('<');
                    for (i, a) in args.iter().enumerate() {
                        if i > 0 {
                            s.push_str(", ");
                        }
                        match a {
                            Arg::Ty(t) => t.show_into(s),
                            Arg::Lt(GLt::Static) => s.push_str("'static"),
                            Arg::Lt(GLt::Inferred) => s.push_str("'_"),
                            Arg::Lt(GLt::Named(n)) => write!(s, "'{n}").unwrap(),
                            Arg::Const(c) => s.push_str(c),
                        }
                    }
                    s.push('>');
                }
            }
            Ty::Ref { mutable, lt, inner } => {
                s.push('&');
                match lt {
                    Lt::Static => s.push_str("'static "),
                    Lt::Inferred => s.push_str("'_ "),
                    Lt::Named(n) => write!(s, "'{n} ").unwrap(),
                    Lt::Elided => {}
                }
                if *mutable {
                    s.push_str("mut ");
                }
                inner.show_into(s);
            }
            Ty::Tuple(es) => {
                s.push('(');
                for (i, e) in es.iter().enumerate() {
                    if i > 0 {
                        s.push_str(", ");
                    }
                    e.show_into(s);
                }
                if es.len() == 1 {
                    s.push(',');
                }
                s.push(')');
            }
            Ty::Scalar(i) => s.push_str(SCALARS[*i]),
            Ty::Slice(e) => {
                s.push('[');
                e.show_into(s);
                s.push(']');
            }
            Ty::Array(e, n) => {
                s.push('[');
                e.show_into(s);
                write!(s, "; {n}]").unwrap();
            }
            Ty::Ptr { mutable, inner } => {
                s.push_str(if *mutable { "*mut " } else { "*const " });
                inner.show_into(s);
            }
            Ty::Fn {
                inputs,
                output,
                abi,
                unsafe_,
            } => {
                if *unsafe_ {
                    s.push_str("unsafe ");
                }
                if let Some(a) = abi.source() {
                    write!(s, "extern \"{a}\" ").unwrap();
                }
                s.push_str("fn(");
                for (i, (n, t)) in inputs.iter().enumerate() {
                    if i > 0 {
                        s.push_str(", ");
                    }
                    if let Some(n) = n {
                        write!(s, "{n}: ").unwrap();
                    }
                    t.show_into(s);
                }
                s.push(')');
                if let Some(o) = output {
                    s.push_str(" -> ");
                    o.show_into(s);
                }
            }
            Ty::Generic(n) => s.push_str(n),
        }
    }
}

// --------------------------------------------------------------------------------- reference model

/// How lifetimes take part in a structural comparison.
#[derive(Clone, Copy, PartialEq, Eq, Debug)]
pub enum LtMode {
    /// lifetimes do not take part at all
    Ignore,
    /// only `'static` versus non-`'static` is compared
    StaticKind,
    /// lifetimes compared exactly
    Exact,
}

fn lt_diff(a_static: bool, b_static: bool, exact_equal: bool, mode: LtMode) -> Option<String> {
    match mode {
        LtMode::Ignore => None,
        LtMode::StaticKind => (a_static != b_static).then(|| "lifetime_static_kind".to_string()),
        LtMode::Exact => (!exact_equal).then(|| "lifetime".to_string()),
    }
}

/// First structural difference (pre-order) between two types, as a short label; `None` when the
/// two are equal under the given lifetime mode. Function-pointer parameter *names* and rustdoc
/// ids are never compared (they are not part of the type).
pub fn first_diff(a: &Ty, b: &Ty, mode: LtMode) -> Option<String> {
    match (a, b) {
        (
            Ty::Path {
                alias: aa,
                pkg: ap,
                segs: asg,
                args: aargs,
                ..
            },
            Ty::Path {
                alias: ba,
                pkg: bp,
                segs: bsg,
                args: bargs,
                ..
            },
        ) => {
            if aa != ba {
                return Some("alias_vs_path".into());
            }
            if ap != bp {
                return Some("package_id".into());
            }
            if asg != bsg {
                return Some("path_base".into());
            }
            if aargs.len() != bargs.len() {
                return Some("generic_arg_count".into());
            }
            for (x, y) in aargs.iter().zip(bargs) {
                match (x, y) {
                    (Arg::Ty(x), Arg::Ty(y)) => {
                        if let Some(d) = first_diff(x, y, mode) {
                            return Some(d);
                        }
                    }
                    (Arg::Lt(x), Arg::Lt(y)) => {
                        if let Some(d) = lt_diff(x.is_static(), y.is_static(), x == y, mode) {
                            return Some(d);
                        }
                    }
                    (Arg::Const(x), Arg::Const(y)) => {
                        if x != y {
                            return Some("const_value".into());
                        }
                    }
                    _ => return Some("generic_arg_kind".into()),
                }
            }
            None
        }
        (
            Ty::Ref {
                mutable: am,
                lt: al,
                inner: ai,
            },
            Ty::Ref {
                mutable: bm,
                lt: bl,
                inner: bi,
            },
        ) => {
            if am != bm {
                return Some("reference_mutability".into());
            }
            if let Some(d) = lt_diff(al.is_static(), bl.is_static(), al == bl, mode) {
                return Some(d);
            }
            first_diff(ai, bi, mode)
        }
        (Ty::Tuple(x), Ty::Tuple(y)) => {
            if x.len() != y.len() {
                return Some("tuple_arity".into());
            }
            x.iter().zip(y).find_map(|(x, y)| first_diff(x, y, mode))
        }
        (Ty::Scalar(x), Ty::Scalar(y)) => (x != y).then(|| "scalar".into()),
        (Ty::Slice(x), Ty::Slice(y)) => first_diff(x, y, mode),
        (Ty::Array(x, n), Ty::Array(y, m)) => {
            if n != m {
                return Some("array_len".into());
            }
            first_diff(x, y, mode)
        }
        (
            Ty::Ptr {
                mutable: am,
                inner: ai,
            },
            Ty::Ptr {
                mutable: bm,
                inner: bi,
            },
        ) => {
            if am != bm {
                return Some("raw_pointer_mutability".into());
            }
            first_diff(ai, bi, mode)
        }
        (
            Ty::Fn {
                inputs: ai,
                output: ao,
                abi: aa,
                unsafe_: au,
            },
            Ty::Fn {
                inputs: bi,
                output: bo,
                abi: ba,
                unsafe_: bu,
            },
        ) => {
            if aa != ba {
                return Some("fn_abi".into());
            }
            if au != bu {
                return Some("fn_unsafe".into());
            }
            if ai.len() != bi.len() {
                return Some("fn_arity".into());
            }
            for ((_, x), (_, y)) in ai.iter().zip(bi) {
                if let Some(d) = first_diff(x, y, mode) {
                    return Some(d);
                }
            }
            match (ao, bo) {
                (Some(x), Some(y)) => first_diff(x, y, mode),
                (None, None) => None,
                _ => Some("fn_output_presence".into()),
            }
        }
        (Ty::Generic(x), Ty::Generic(y)) => (x != y).then(|| "generic_identity".into()),
        (x, y) => {
            // different constructors: keep the label coarse (the kinds are in the witness)
            if matches!(x, Ty::Generic(_)) || matches!(y, Ty::Generic(_)) {
                Some("generic_vs_concrete".into())
            } else {
                Some("constructor_mismatch".into())
            }
        }
    }
}

impl Ty {
    /// Generic parameters renamed positionally (`#0`, `#1`, ... by first occurrence).
    /// Two types are equal up to a *bijective* renaming of their parameters (and up to lifetimes)
    /// iff `first_diff(a.positional(), b.positional(), LtMode::Ignore)` is `None`.
    pub fn positional(&self) -> Ty {
        let map: BTreeMap<String, String> = self
            .params()
            .into_iter()
            .enumerate()
            .map(|(i, n)| (n, format!("#{i}")))
            .collect();
        self.rename_generics(&map)
    }
}

/// The reference notion of `is_equivalent_to`: `None` when equivalent, otherwise the first
/// difference that no renaming of generic parameters / lifetimes can remove.
pub fn ref_equiv_diff(a: &Ty, b: &Ty) -> Option<String> {
    first_diff(&a.positional(), &b.positional(), LtMode::Ignore)
}

/// Exact first-order matching: `Some(sigma)` iff `template.subst(sigma) == concrete` (exactly,
/// lifetimes included; fn parameter names and rustdoc ids excepted) with `sigma` defined on
/// exactly the parameters of `template`. Only meaningful when the parameter names of the two
/// sides are disjoint (the caller checks).
pub fn exact_match(template: &Ty, concrete: &Ty) -> Option<BTreeMap<String, Ty>> {
    let mut m = BTreeMap::new();
    if exact_match_into(template, concrete, &mut m) {
        Some(m)
    } else {
        None
    }
}

fn exact_match_into(t: &Ty, c: &Ty, m: &mut BTreeMap<String, Ty>) -> bool {
    if let Ty::Generic(n) = t {
        return match m.get(n) {
            // repeated parameter: identical sub-term, compared exactly and including names
            Some(prev) => prev == c,
            None => {
                m.insert(n.clone(), c.clone());
                true
            }
        };
    }
    match (t, c) {
        (
            Ty::Path {
                alias: aa,
                pkg: ap,
                segs: asg,
                args: aargs,
                ..
            },
            Ty::Path {
                alias: ba,
                pkg: bp,
                segs: bsg,
                args: bargs,
                ..
            },
        ) => {
            aa == ba
                && ap == bp
                && asg == bsg
                && aargs.len() == bargs.len()
                && aargs.iter().zip(bargs).all(|(x, y)| match (x, y) {
                    (Arg::Ty(x), Arg::Ty(y)) => exact_match_into(x, y, m),
                    (Arg::Lt(x), Arg::Lt(y)) => x == y,
                    (Arg::Const(x), Arg::Const(y)) => x == y,
                    _ => false,
                })
        }
        (
            Ty::Ref {
                mutable: am,
                lt: al,
                inner: ai,
            },
            Ty::Ref {
                mutable: bm,
                lt: bl,
                inner: bi,
            },
        ) => am == bm && al == bl && exact_match_into(ai, bi, m),
        (Ty::Tuple(x), Ty::Tuple(y)) => {
            x.len() == y.len() && x.iter().zip(y).all(|(x, y)| exact_match_into(x, y, m))
        }
        (Ty::Scalar(x), Ty::Scalar(y)) => x == y,
        (Ty::Slice(x), Ty::Slice(y)) => exact_match_into(x, y, m),
        (Ty::Array(x, n), Ty::Array(y, k)) => n == k && exact_match_into(x, y, m),
        (
            Ty::Ptr {
                mutable: am,
                inner: ai,
            },
            Ty::Ptr {
                mutable: bm,
                inner: bi,
            },
        ) => am == bm && exact_match_into(ai, bi, m),
        (
            Ty::Fn {
                inputs: ai,
                output: ao,
                abi: aa,
                unsafe_: au,
            },
            Ty::Fn {
                inputs: bi,
                output: bo,
                abi: ba,
                unsafe_: bu,
            },
        ) => {
            aa == ba
                && au == bu
                && ai.len() == bi.len()
                && ai
                    .iter()
                    .zip(bi)
                    .all(|((_, x), (_, y))| exact_match_into(x, y, m))
                && match (ao, bo) {
                    (Some(x), Some(y)) => exact_match_into(x, y, m),
                    (None, None) => true,
                    _ => false,
                }
        }
        _ => false,
    }
}
