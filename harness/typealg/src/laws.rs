//! The monitors: every call goes to the public API of `rustdoc_ir`, every verdict comes from the
//! harness's own AST (`ast.rs`).

use std::cell::RefCell;
use std::collections::{BTreeMap, BTreeSet};
use std::panic::{AssertUnwindSafe, catch_unwind};

use ahash::HashMapExt;
use bimap::BiHashMap;
use guppy::PackageId;
use quote::ToTokens;
use rustdoc_ir as ir;
use serde_json::{Value, json};

use crate::ast::*;
use crate::generate::{PKGS, crate_name};

// ------------------------------------------------------------------------------------------ panics

thread_local! {
    static LAST_PANIC: RefCell<Option<(String, String)>> = const { RefCell::new(None) };
}

pub fn install_silent_panic_hook() {
    std::panic::set_hook(Box::new(|info| {
        let loc = info
            .location()
            .map(|l| format!("{}:{}", l.file(), l.line()))
            .unwrap_or_else(|| "?".into());
        let msg = if let Some(s) = info.payload().downcast_ref::<&str>() {
            s.to_string()
        } else if let Some(s) = info.payload().downcast_ref::<String>() {
            s.clone()
        } else {
            "<non-string panic payload>".to_string()
        };
        LAST_PANIC.with(|p| *p.borrow_mut() = Some((loc, msg)));
    }));
}

// ------------------------------------------------------------------------------------------- state

pub struct Item {
    pub ty: Ty,
    pub ir: ir::Type,
    pub params: Vec<String>,
    pub positional: Ty,
    /// `None` when `canonicalize` panicked (already reported)
    pub canon: Option<ir::CanonicalType>,
    pub size: usize,
}

pub struct VioEntry {
    pub sig: Value,
    pub detail: Value,
    pub size: usize,
    pub count: u64,
}

/// Counters keyed by string literals; the hot path compares addresses, not contents.
#[derive(Default)]
pub struct Counters(Vec<(&'static str, u64)>);

impl Counters {
    #[inline]
    pub fn bump(&mut self, key: &'static str) {
        for e in self.0.iter_mut() {
            if std::ptr::eq(e.0.as_ptr(), key.as_ptr()) && e.0.len() == key.len() {
                e.1 += 1;
                return;
            }
        }
        self.0.push((key, 1));
    }
    pub fn to_map(&self) -> BTreeMap<String, u64> {
        let mut m = BTreeMap::new();
        for (k, v) in &self.0 {
            *m.entry(k.to_string()).or_insert(0) += v;
        }
        m
    }
}

#[derive(Default)]
pub struct Stats {
    /// number of times each law was evaluated
    pub check_counters: Counters,
    pub obs_counters: Counters,
    pub checks: BTreeMap<String, u64>,
    /// observation counters (premises that were true, interesting sub-cases reached, ...)
    pub obs: BTreeMap<String, u64>,
    pub obs_samples: BTreeMap<String, Value>,
    pub violations: BTreeMap<String, VioEntry>,
    pub inconclusive: BTreeMap<String, (u64, Value)>,
    pub strict_lifetimes: bool,
}

impl Stats {
    #[inline]
    pub fn tick(&mut self, law: &'static str) {
        self.check_counters.bump(law);
    }
    #[inline]
    pub fn observe(&mut self, what: &'static str) {
        self.obs_counters.bump(what);
    }
    /// Fold the fast counters into the maps (call before reading `checks` / `obs`).
    pub fn settle(&mut self) {
        for (k, v) in std::mem::take(&mut self.check_counters).to_map() {
            *self.checks.entry(k).or_insert(0) += v;
        }
        for (k, v) in std::mem::take(&mut self.obs_counters).to_map() {
            *self.obs.entry(k).or_insert(0) += v;
        }
    }
    pub fn observe_with(&mut self, what: &str, sample: impl FnOnce() -> Value) {
        *self.obs.entry(what.to_string()).or_insert(0) += 1;
        if !self.obs_samples.contains_key(what) {
            self.obs_samples.insert(what.to_string(), sample());
        }
    }
    pub fn violation(&mut self, sig: Value, size: usize, detail: impl FnOnce() -> Value) {
        let key = sig.to_string();
        match self.violations.get_mut(&key) {
            Some(e) => {
                e.count += 1;
                if size < e.size {
                    e.size = size;
                    e.detail = detail();
                } else if size == e.size {
                    // equal size: keep the lexicographically smaller witness, so that the result
                    // does not depend on the order in which threads meet the cases
                    let d = detail();
                    if d.to_string() < e.detail.to_string() {
                        e.detail = d;
                    }
                }
            }
            None => {
                self.violations.insert(
                    key,
                    VioEntry {
                        sig,
                        detail: detail(),
                        size,
                        count: 1,
                    },
                );
            }
        }
    }
    pub fn inconclusive(&mut self, what: &str, detail: impl FnOnce() -> Value) {
        match self.inconclusive.get_mut(what) {
            Some(e) => e.0 += 1,
            None => {
                self.inconclusive.insert(what.to_string(), (1, detail()));
            }
        }
    }

    pub fn merge(&mut self, mut other: Stats) {
        other.settle();
        self.settle();
        for (k, v) in other.checks {
            *self.checks.entry(k).or_insert(0) += v;
        }
        for (k, v) in other.obs {
            *self.obs.entry(k).or_insert(0) += v;
        }
        for (k, v) in other.obs_samples {
            self.obs_samples.entry(k).or_insert(v);
        }
        for (k, v) in other.violations {
            match self.violations.get_mut(&k) {
                Some(e) => {
                    e.count += v.count;
                    if v.size < e.size
                        || (v.size == e.size && v.detail.to_string() < e.detail.to_string())
                    {
                        e.size = v.size;
                        e.detail = v.detail;
                    }
                }
                None => {
                    self.violations.insert(k, v);
                }
            }
        }
        for (k, v) in other.inconclusive {
            match self.inconclusive.get_mut(&k) {
                Some(e) => e.0 += v.0,
                None => {
                    self.inconclusive.insert(k, v);
                }
            }
        }
    }

    /// Run a call into the code under test; a panic becomes a violation with `sig.kind = "panic"`.
    fn guard<R>(
        &mut self,
        api: &'static str,
        witness: &dyn Fn() -> Value,
        size: usize,
        f: impl FnOnce() -> R,
    ) -> Option<R> {
        match catch_unwind(AssertUnwindSafe(f)) {
            Ok(r) => Some(r),
            Err(_) => {
                let (loc, msg) = LAST_PANIC
                    .with(|p| p.borrow_mut().take())
                    .unwrap_or_else(|| ("?".into(), "?".into()));
                let loc_short = loc.rsplit("/rustdoc/").next().unwrap_or(&loc).to_string();
                self.violation(
                    json!({"kind": "panic", "api": api, "location": loc_short}),
                    size,
                    || json!({"api": api, "location": loc, "message": msg, "input": witness()}),
                );
                None
            }
        }
    }
}

pub fn type_json(t: &ir::Type) -> String {
    serde_json::to_string(t).unwrap_or_else(|e| format!("<unserialisable: {e}>"))
}

impl Item {
    pub fn new(ty: Ty, st: &mut Stats) -> Item {
        let ir = ty.to_ir();
        let params = ty.params();
        let positional = ty.positional();
        let size = ty.size();
        let shown = ty.show();
        let canon = st.guard(
            "canonicalize",
            &|| json!({"x": shown, "x_json": type_json(&ir)}),
            size,
            || ir.canonicalize(),
        );
        Item {
            ty,
            ir,
            params,
            positional,
            canon,
            size,
        }
    }
}

fn pair_witness(x: &Item, y: &Item, op: &str) -> Value {
    json!({
        "op": op,
        "x": x.ty.show(), "y": y.ty.show(),
        "x_json": type_json(&x.ir), "y_json": type_json(&y.ir),
    })
}

fn show_bindings(b: &ahash::HashMap<String, ir::Type>) -> Value {
    let m: BTreeMap<String, String> = b
        .iter()
        .map(|(k, v)| {
            (
                k.clone(),
                Ty::from_ir(v).map(|t| t.show()).unwrap_or_else(|e| e),
            )
        })
        .collect();
    json!(m)
}

// ----------------------------------------------------------------------------- law 1 + 2: templates

/// Which sub-term is the smallest one for which the implementation denies a match that exists.
fn completeness_culprit(t: &Ty, c: &Ty) -> String {
    for (tc, cc) in t.children().into_iter().zip(c.children()) {
        if exact_match(tc, cc).is_some() {
            let r = catch_unwind(AssertUnwindSafe(|| {
                tc.to_ir().is_a_template_for(&cc.to_ir()).is_some()
            }));
            if let Ok(false) = r {
                return completeness_culprit(tc, cc);
            }
        }
    }
    t.kind().to_string()
}

/// `t` as a candidate template for `c` (one direction).
pub fn check_template(t: &Item, c: &Item, op: &str, st: &mut Stats) {
    let in_scope = !t.params.iter().any(|p| c.params.contains(p));
    let size = t.size + c.size;
    let w = || pair_witness(t, c, op);
    st.tick("template_bind_roundtrip");
    let Some(r) = st.guard("is_a_template_for", &w, size, || t.ir.is_a_template_for(&c.ir)) else {
        return;
    };
    let expected = if in_scope {
        st.tick("template_completeness");
        exact_match(&t.ty, &c.ty)
    } else {
        None
    };
    match r {
        Some(b) => {
            st.observe("template/reported_some");
            if !b.is_empty() {
                st.observe("template/reported_some_with_bindings");
            }
            if !in_scope {
                st.observe("template/reported_some_shared_parameter_names");
            }
            // keys of the bindings are parameters of the template
            if let Some(k) = b.keys().find(|k| !t.params.contains(k)) {
                let k = k.clone();
                st.violation(
                    json!({"law": "template_binding_keys", "cause": "key_not_a_parameter"}),
                    size,
                    || json!({"pair": w(), "key": k, "bindings": show_bindings(&b)}),
                );
            }
            let Some(bound) = st.guard("bind_generic_type_parameters", &w, size, || {
                t.ir.bind_generic_type_parameters(&b)
            }) else {
                return;
            };
            let bound_ty = match Ty::from_ir(&bound) {
                Ok(t) => t,
                Err(e) => {
                    st.inconclusive("cannot read back bound type", || json!(e));
                    return;
                }
            };
            let detail = |cause: &str| {
                json!({"pair": w(), "template": t.ty.show(), "concrete": c.ty.show(),
                       "bindings": show_bindings(&b), "bound": bound_ty.show(), "cause": cause})
            };
            if let Some(cause) = first_diff(&bound_ty, &c.ty, LtMode::Ignore) {
                if in_scope {
                    st.violation(
                        json!({"law": "template_bind_roundtrip", "cause": cause}),
                        size,
                        || detail(&cause),
                    );
                } else {
                    // outside the property (it speaks about a *concrete* target): the two sides
                    // share parameter names. Recorded, never a verdict.
                    st.observe_with(
                        &format!("out_of_scope/shared_names_bind_roundtrip_fails/{cause}"),
                        || detail(&cause),
                    );
                }
            } else if first_diff(&bound_ty, &c.ty, LtMode::StaticKind).is_some() {
                if st.strict_lifetimes && in_scope {
                    st.violation(
                        json!({"law": "template_bind_roundtrip", "cause": "lifetime_static_kind"}),
                        size,
                        || detail("lifetime_static_kind"),
                    );
                } else {
                    st.observe_with("template/roundtrip_equal_but_static_vs_nonstatic_lifetime", || {
                        detail("lifetime_static_kind")
                    });
                }
            } else {
                st.observe("template/roundtrip_ok");
            }
            if let Some(sigma) = &expected {
                st.observe("template/constructed_instance_recognised");
                let mut same = sigma.len() == b.len();
                for (k, v) in sigma {
                    same &= match b.get(k).map(Ty::from_ir) {
                        Some(Ok(bv)) => bv == *v,
                        _ => false,
                    };
                }
                if !same {
                    st.violation(
                        json!({"law": "template_completeness", "cause": "bindings_differ"}),
                        size,
                        || {
                            json!({"pair": w(), "bindings": show_bindings(&b),
                            "expected": sigma.iter().map(|(k, v)| (k.clone(), v.show())).collect::<BTreeMap<_, _>>()})
                        },
                    );
                }
            }
        }
        None => {
            if let Some(sigma) = &expected {
                let cause = completeness_culprit(&t.ty, &c.ty);
                st.violation(
                    json!({"law": "template_completeness", "cause": cause}),
                    size,
                    || {
                        json!({"pair": w(), "template": t.ty.show(), "concrete": c.ty.show(),
                        "a_valid_substitution": sigma.iter().map(|(k, v)| (k.clone(), v.show())).collect::<BTreeMap<_, _>>()})
                    },
                );
            }
        }
    }
}

// ------------------------------------------------------------------------- law 3 + 4: equivalence

/// Outcome of `is_equivalent_to` as owned data.
type Renaming = Option<BTreeMap<String, String>>;

fn equiv(a: &Item, b: &Item, op: &str, st: &mut Stats) -> Option<Renaming> {
    st.guard(
        "is_equivalent_to",
        &|| pair_witness(a, b, op),
        a.size + b.size,
        || {
            a.ir.is_equivalent_to(&b.ir).map(|m| {
                m.into_iter()
                    .map(|(k, v)| (k.to_string(), v.to_string()))
                    .collect::<BTreeMap<_, _>>()
            })
        },
    )
}

/// Cheap boolean version used by the exhaustive transitivity pass.
pub fn equiv_bool(a: &Item, b: &Item) -> Option<bool> {
    catch_unwind(AssertUnwindSafe(|| a.ir.is_equivalent_to(&b.ir).is_some())).ok()
}

/// All equivalence and canonical-form laws on the unordered pair {x, y}. Returns whether the
/// implementation related x to y (for the callers that chain pairs).
pub fn check_equivalence(x: &Item, y: &Item, op: &str, st: &mut Stats) -> Option<bool> {
    let size = x.size + y.size;
    let w = || pair_witness(x, y, op);
    st.tick("equivalence_pair");
    let exy = equiv(x, y, op, st)?;
    let eyx = equiv(y, x, op, st)?;
    let ref_diff = first_diff(&x.positional, &y.positional, LtMode::Ignore);
    let pure_generic_renaming = ref_diff.is_none()
        && first_diff(&x.positional, &y.positional, LtMode::Exact).is_none();

    // symmetry
    st.tick("equivalence_symmetry");
    if exy.is_some() != eyx.is_some() {
        let cause = ref_diff.clone().unwrap_or_else(|| "renaming_pair".into());
        st.violation(json!({"law": "equivalence_symmetry", "cause": cause}), size, || {
            json!({"pair": w(), "x_to_y": exy, "y_to_x": eyx})
        });
    } else if let (Some(m), Some(n)) = (&exy, &eyx) {
        let inv: BTreeMap<String, String> = m.iter().map(|(k, v)| (v.clone(), k.clone())).collect();
        if &inv != n {
            st.violation(
                json!({"law": "equivalence_symmetry", "cause": "maps_not_inverse"}),
                size,
                || json!({"pair": w(), "x_to_y": m, "y_to_x": n}),
            );
        }
    }

    for (a, b, m) in [(x, y, &exy), (y, x, &eyx)] {
        match m {
            Some(m) => {
                st.observe("equivalence/reported_some");
                // the map is a bijection between the two parameter sets
                st.tick("equivalence_bijection");
                let keys: BTreeSet<&String> = m.keys().collect();
                let vals: BTreeSet<&String> = m.values().collect();
                let pa: BTreeSet<&String> = a.params.iter().collect();
                let pb: BTreeSet<&String> = b.params.iter().collect();
                let cause = if keys != pa {
                    Some("keys_are_not_the_parameters_of_self")
                } else if vals.len() != m.len() {
                    Some("not_injective")
                } else if vals != pb {
                    Some("values_are_not_the_parameters_of_other")
                } else {
                    None
                };
                if let Some(cause) = cause {
                    st.violation(json!({"law": "equivalence_bijection", "cause": cause}), size, || {
                        json!({"pair": pair_witness(a, b, op), "map": m})
                    });
                }
                st.tick("equivalence_non_renaming");
                if let Some(cause) = &ref_diff {
                    st.violation(
                        json!({"law": "equivalence_non_renaming", "cause": cause}),
                        size,
                        || json!({"pair": pair_witness(a, b, op), "map": m, "cause": cause}),
                    );
                } else {
                    if !m.is_empty() {
                        st.observe("equivalence/reported_some_with_parameters");
                    }
                    // applying the returned renaming to `a` gives `b` (up to lifetimes)
                    st.tick("equivalence_map_renames");
                    let renamed = a.ty.rename_generics(m);
                    if let Some(cause) = first_diff(&renamed, &b.ty, LtMode::Ignore) {
                        st.violation(
                            json!({"law": "equivalence_map_renames", "cause": cause}),
                            size,
                            || json!({"pair": pair_witness(a, b, op), "map": m, "renamed": renamed.show()}),
                        );
                    }
                }
            }
            None => {
                st.observe("equivalence/reported_none");
                if pure_generic_renaming {
                    st.violation(
                        json!({"law": "equivalence_renaming_complete", "cause": "bijective_renaming_rejected"}),
                        size,
                        || json!({"pair": pair_witness(a, b, op)}),
                    );
                }
            }
        }
    }
    if ref_diff.is_none() {
        st.observe("equivalence/reference_model_says_equivalent");
    }

    // equal canonical forms => equivalent
    if let (Some(cx), Some(cy)) = (&x.canon, &y.canon) {
        st.tick("canonical_equal_implies_equivalent");
        if cx == cy {
            st.observe("canonical/equal_forms");
            if x.ty != y.ty {
                st.observe("canonical/equal_forms_of_different_types");
            }
            if exy.is_none() || eyx.is_none() {
                st.violation(
                    json!({"law": "canonical_equal_implies_equivalent", "cause": "is_equivalent_to_none"}),
                    size,
                    || json!({"pair": w(), "canonical": format!("{:?}", cx.inner())}),
                );
            }
            if let Some(cause) = &ref_diff {
                st.violation(
                    json!({"law": "canonical_equal_implies_equivalent", "cause": cause}),
                    size,
                    || json!({"pair": w(), "canonical": format!("{:?}", cx.inner()), "cause": cause}),
                );
            }
        } else if ref_diff.is_none()
            && first_diff(&x.positional, &y.positional, LtMode::StaticKind).is_none()
        {
            // documented on `CanonicalType`, but not part of the property: observation only
            st.observe_with("canonical/forms_differ_on_a_pure_renaming_pair", || {
                json!({"pair": w(), "cx": format!("{:?}", cx.inner()), "cy": format!("{:?}", cy.inner())})
            });
        }
    }
    Some(exy.is_some())
}

/// Reflexivity, idempotence of `canonicalize`, and `x ~ canonicalize(x)`.
pub fn check_single(x: &Item, st: &mut Stats) {
    st.tick("equivalence_reflexive");
    if let Some(r) = equiv(x, x, "identity", st) {
        match r {
            None => st.violation(
                json!({"law": "equivalence_reflexive", "cause": x.ty.kind()}),
                x.size,
                || json!({"x": x.ty.show(), "x_json": type_json(&x.ir)}),
            ),
            Some(m) => {
                if m.iter().any(|(k, v)| k != v) || m.len() != x.params.len() {
                    st.violation(
                        json!({"law": "equivalence_reflexive", "cause": "map_is_not_the_identity"}),
                        x.size,
                        || json!({"x": x.ty.show(), "x_json": type_json(&x.ir), "map": m}),
                    );
                }
            }
        }
    }
    if let Some(c) = &x.canon {
        st.tick("canonicalize_idempotent");
        let w = || json!({"x": x.ty.show(), "x_json": type_json(&x.ir)});
        if let Some(c2) = st.guard("canonicalize", &w, x.size, || c.inner().canonicalize()) {
            if &c2 != c {
                let cause = match (Ty::from_ir(c.inner()), Ty::from_ir(c2.inner())) {
                    (Ok(a), Ok(b)) => first_diff(&a, &b, LtMode::Exact).unwrap_or_else(|| "names".into()),
                    _ => "unreadable".into(),
                };
                st.violation(json!({"law": "canonicalize_idempotent", "cause": cause}), x.size, || {
                    json!({"x": x.ty.show(), "x_json": type_json(&x.ir),
                           "once": format!("{:?}", c.inner()), "twice": format!("{:?}", c2.inner())})
                });
            }
        }
    }
}

/// `x` against its own canonical form: by idempotence the two have equal canonical forms, hence
/// must be equivalent and must not differ in anything but names.
pub fn check_against_canonical(x: &Item, st: &mut Stats) {
    let Some(c) = &x.canon else { return };
    match Ty::from_ir(c.inner()) {
        Ok(cty) => {
            let ci = Item::new(cty, st);
            check_equivalence(x, &ci, "canonicalize", st);
        }
        Err(e) => st.inconclusive("cannot read back canonical type", || json!(e)),
    }
}

/// x, y, z come from one renaming orbit: all three pairs must be related and the maps compose.
pub fn check_orbit(x: &Item, y: &Item, z: &Item, st: &mut Stats) {
    st.tick("equivalence_transitive_orbit");
    let (Some(xy), Some(yz), Some(xz)) = (
        equiv(x, y, "orbit", st),
        equiv(y, z, "orbit", st),
        equiv(x, z, "orbit", st),
    ) else {
        return;
    };
    let size = x.size + y.size + z.size;
    let w = || json!({"x": x.ty.show(), "y": y.ty.show(), "z": z.ty.show(),
        "x_json": type_json(&x.ir), "y_json": type_json(&y.ir), "z_json": type_json(&z.ir)});
    match (&xy, &yz, &xz) {
        (Some(a), Some(b), Some(c)) => {
            let composed: BTreeMap<String, String> = a
                .iter()
                .filter_map(|(k, v)| b.get(v).map(|v2| (k.clone(), v2.clone())))
                .collect();
            if &composed != c {
                st.violation(
                    json!({"law": "equivalence_transitive", "cause": "maps_do_not_compose"}),
                    size,
                    || json!({"triple": w(), "xy": a, "yz": b, "xz": c}),
                );
            } else {
                st.observe("equivalence/orbit_triples_related");
            }
        }
        (Some(_), Some(_), None) => st.violation(
            json!({"law": "equivalence_transitive", "cause": "orbit"}),
            size,
            || json!({"triple": w(), "xy": xy, "yz": yz, "xz": xz}),
        ),
        // a rejected bijective renaming is reported by `equivalence_renaming_complete`
        _ => {}
    }
}

/// Conditional transitivity on an arbitrary chain.
pub fn check_chain(x: &Item, y: &Item, z: &Item, xy: bool, st: &mut Stats) {
    st.tick("equivalence_transitive_chain");
    let (Some(yz), Some(xz)) = (equiv_bool(y, z), equiv_bool(x, z)) else {
        return;
    };
    if xy && yz {
        st.observe("equivalence/chain_premise_true");
        if !xz {
            st.violation(
                json!({"law": "equivalence_transitive", "cause": "chain"}),
                x.size + y.size + z.size,
                || json!({"x": x.ty.show(), "y": y.ty.show(), "z": z.ty.show(),
                    "x_json": type_json(&x.ir), "y_json": type_json(&y.ir), "z_json": type_json(&z.ir)}),
            );
        }
    }
}

// --------------------------------------------------------------------------------- law 5: rendering

pub struct Renderer {
    id2name: BiHashMap<PackageId, String>,
}

fn tokens_of(src: &str) -> Result<String, String> {
    syn::parse_str::<syn::Type>(src)
        .map(|t| t.to_token_stream().to_string())
        .map_err(|e| e.to_string())
}

impl Renderer {
    pub fn new() -> Renderer {
        let mut id2name = BiHashMap::new();
        for (id, name) in PKGS {
            id2name.insert(PackageId::new(id), name.to_string());
        }
        Renderer { id2name }
    }

    /// Some(mismatch description) when rendering `ty` is not what the independent printer says.
    fn mismatch(&self, ty: &Ty, which: &'static str) -> Option<(String, Value)> {
        let irt = ty.to_ir();
        let (mode, rendered) = match which {
            "render_type" => (
                PrintMode::Source,
                catch_unwind(AssertUnwindSafe(|| irt.render_type(&self.id2name))),
            ),
            "render_with_inferred_lifetimes" => (
                PrintMode::Erased,
                catch_unwind(AssertUnwindSafe(|| irt.render_with_inferred_lifetimes(&self.id2name))),
            ),
            _ => (
                PrintMode::Direct,
                catch_unwind(AssertUnwindSafe(|| irt.display_for_error())),
            ),
        };
        let expected_src = ty.print(mode, &crate_name);
        let rendered = match rendered {
            Ok(r) => r,
            Err(_) => return Some(("panic".into(), json!({"expected_source": expected_src}))),
        };
        let expected = match tokens_of(&expected_src) {
            Ok(t) => t,
            Err(e) => {
                return Some((
                    "harness_printer_unparseable".into(),
                    json!({"expected_source": expected_src, "error": e}),
                ));
            }
        };
        match tokens_of(&rendered) {
            Err(e) => Some((
                "unparseable".into(),
                json!({"rendered": rendered, "expected_source": expected_src, "syn_error": e}),
            )),
            Ok(got) => (got != expected).then(|| {
                (
                    "tokens_differ".into(),
                    json!({"rendered": rendered, "rendered_tokens": got, "expected_tokens": expected}),
                )
            }),
        }
    }

    /// The smallest sub-term whose rendering is wrong, as a cause label.
    fn culprit(&self, ty: &Ty, which: &'static str) -> String {
        for c in ty.children() {
            if self.mismatch(c, which).is_some() {
                return self.culprit(c, which);
            }
        }
        match ty {
            Ty::Tuple(es) if es.len() == 1 => "tuple_arity_1".into(),
            Ty::Tuple(es) => format!("tuple_arity_{}", es.len().min(3)),
            Ty::Fn { abi, unsafe_, .. } => format!(
                "fn_pointer(extern={},unsafe={})",
                abi.source().is_some(),
                unsafe_
            ),
            Ty::Ref { lt, mutable, .. } => format!(
                "reference(lifetime={},mut={})",
                match lt {
                    Lt::Static => "static",
                    Lt::Named(_) => "named",
                    Lt::Inferred => "inferred",
                    Lt::Elided => "elided",
                },
                mutable
            ),
            Ty::Path { args, .. } => format!(
                "{}(args={})",
                ty.kind(),
                args.iter()
                    .map(|a| match a {
                        Arg::Ty(_) => "T",
                        Arg::Lt(_) => "L",
                        Arg::Const(c) => {
                            if c.starts_with('-') { "negC" } else { "C" }
                        }
                    })
                    .collect::<Vec<_>>()
                    .join("")
            ),
            other => other.kind().to_string(),
        }
    }

    pub fn check(&self, x: &Item, st: &mut Stats) {
        for which in ["render_type", "render_with_inferred_lifetimes", "display_for_error"] {
            st.tick(match which {
                "render_type" => "render_roundtrip",
                "render_with_inferred_lifetimes" => "render_roundtrip_inferred_lifetimes",
                _ => "display_for_error_observed",
            });
            let Some((what, info)) = self.mismatch(&x.ty, which) else {
                continue;
            };
            if what == "harness_printer_unparseable" {
                st.inconclusive("the harness's own printer produced source that syn rejects", || {
                    json!({"x": x.ty.show(), "info": info})
                });
                continue;
            }
            let cause = self.culprit(&x.ty, which);
            let detail = || json!({"x": x.ty.show(), "x_json": type_json(&x.ir), "renderer": which,
                "what": what, "info": info, "cause": cause});
            if which == "display_for_error" {
                // error-message formatting is not "Rust source" in the property: observation only
                st.observe_with(&format!("display_for_error/not_lossless/{cause}"), detail);
                continue;
            }
            if what == "panic" {
                let (loc, msg) = LAST_PANIC
                    .with(|p| p.borrow_mut().take())
                    .unwrap_or_else(|| ("?".into(), "?".into()));
                let loc_short = loc.rsplit("/rustdoc/").next().unwrap_or(&loc).to_string();
                st.violation(
                    json!({"kind": "panic", "api": which, "location": loc_short, "cause": cause}),
                    x.size,
                    || json!({"message": msg, "location": loc, "case": detail()}),
                );
                continue;
            }
            st.violation(
                json!({"law": "render_roundtrip", "renderer": which, "what": what, "cause": cause}),
                x.size,
                detail,
            );
        }
        // `syn_type` is `render_type` + parse; it must agree with the independent construction too
        st.tick("render_syn_type");
        let r = catch_unwind(AssertUnwindSafe(|| {
            x.ir.syn_type(&self.id2name).to_token_stream().to_string()
        }));
        let expected = tokens_of(&x.ty.print(PrintMode::Source, &crate_name));
        match (r, expected) {
            (Ok(got), Ok(exp)) => {
                if got != exp {
                    let cause = self.culprit(&x.ty, "render_type");
                    st.violation(
                        json!({"law": "render_roundtrip", "renderer": "syn_type", "what": "tokens_differ", "cause": cause}),
                        x.size,
                        || json!({"x": x.ty.show(), "x_json": type_json(&x.ir), "got": got, "expected": exp}),
                    );
                } else {
                    st.observe("render/lossless");
                }
            }
            (Err(_), Ok(_)) => {
                let (loc, msg) = LAST_PANIC
                    .with(|p| p.borrow_mut().take())
                    .unwrap_or_else(|| ("?".into(), "?".into()));
                let loc_short = loc.rsplit("/rustdoc/").next().unwrap_or(&loc).to_string();
                let cause = self.culprit(&x.ty, "render_type");
                st.violation(
                    json!({"kind": "panic", "api": "syn_type", "location": loc_short, "cause": cause}),
                    x.size,
                    || json!({"x": x.ty.show(), "x_json": type_json(&x.ir), "message": msg, "location": loc}),
                );
            }
            _ => {}
        }
    }
}

/// Build a `HashMap<String, Type>` the way callers of `bind_generic_type_parameters` do.
#[allow(dead_code)]
pub fn bindings_of(sigma: &BTreeMap<String, Ty>) -> ahash::HashMap<String, ir::Type> {
    let mut m = ahash::HashMap::new();
    for (k, v) in sigma {
        m.insert(k.clone(), v.to_ir());
    }
    m
}
