//! SplitMix64: all randomness of the harness derives from `--seed`.
#[derive(Clone)]
pub struct Rng(pub u64);

impl Rng {
    pub fn new(seed: u64) -> Self {
        Rng(seed ^ 0x9E37_79B9_7F4A_7C15)
    }
    pub fn next(&mut self) -> u64 {
        self.0 = self.0.wrapping_add(0x9E37_79B9_7F4A_7C15);
        let mut z = self.0;
        z = (z ^ (z >> 30)).wrapping_mul(0xBF58_476D_1CE4_E5B9);
        z = (z ^ (z >> 27)).wrapping_mul(0x94D0_49BB_1331_11EB);
        z ^ (z >> 31)
    }
    pub fn below(&mut self, n: u64) -> u64 {
        if n == 0 { 0 } else { self.next() % n }
    }
    pub fn chance(&mut self, num: u64, den: u64) -> bool {
        self.below(den) < num
    }
    pub fn derive(&self, salt: u64) -> Rng {
        let mut r = Rng(self.0 ^ salt.wrapping_mul(0xD6E8_FEB8_6659_FD93));
        r.next();
        r
    }
    pub fn bytes(&mut self, n: usize) -> Vec<u8> {
        let mut v = Vec::with_capacity(n + 8);
        while v.len() < n {
            v.extend_from_slice(&self.next().to_le_bytes());
        }
        v.truncate(n);
        v
    }
}

/// FNV-1a, used for the `distinct_keys` hashes.
pub fn fnv(s: &str) -> String {
    let mut h: u64 = 0xcbf2_9ce4_8422_2325;
    for b in s.as_bytes() {
        h ^= *b as u64;
        h = h.wrapping_mul(0x0000_0100_0000_01B3);
    }
    format!("{h:016x}")
}
