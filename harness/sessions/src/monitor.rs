//! A `SessionStorageBackend` that logs every call made by the code under test and forwards it to
//! the real store. It is a monitor, not a model: it never answers on its own.
use pavex_session::SessionId;
use pavex_session::store::errors::{
    ChangeIdError, CreateError, DeleteError, DeleteExpiredError, LoadError, UpdateError, UpdateTtlError,
};
use pavex_session::store::{SessionRecord, SessionRecordRef, SessionStorageBackend};
use std::num::NonZeroUsize;
use std::sync::{Arc, Mutex};

#[derive(Clone, Debug)]
#[allow(dead_code)]
pub struct Call {
    pub op: &'static str,
    pub ids: Vec<String>,
    pub ok: bool,
    pub err: Option<String>,
}

#[derive(Clone, Default)]
pub struct MonLog(pub Arc<Mutex<Vec<Call>>>);

impl MonLog {
    pub fn push(&self, c: Call) {
        self.0.lock().unwrap().push(c);
    }
    pub fn len(&self) -> usize {
        self.0.lock().unwrap().len()
    }
    pub fn since(&self, mark: usize) -> Vec<Call> {
        self.0.lock().unwrap()[mark..].to_vec()
    }
    pub fn all_ids(&self) -> Vec<String> {
        let g = self.0.lock().unwrap();
        let mut v: Vec<String> = g.iter().flat_map(|c| c.ids.iter().cloned()).collect();
        v.sort();
        v.dedup();
        v
    }
    pub fn clear(&self) {
        self.0.lock().unwrap().clear();
    }
}

pub fn id_str(id: &SessionId) -> String {
    id.inner().to_string()
}

pub fn id_from(s: &str) -> Option<SessionId> {
    serde_json::from_value(serde_json::Value::String(s.to_string())).ok()
}

thread_local! {
    /// Set by the `SyncFault` operation (every shard thread drives its own current-thread runtime).
    pub static FAIL_NEXT_UPDATE: std::cell::Cell<bool> = const { std::cell::Cell::new(false) };
}

pub struct Monitor {
    pub inner: Arc<dyn SessionStorageBackend>,
    pub log: MonLog,
}

impl std::fmt::Debug for Monitor {
    fn fmt(&self, f: &mut std::fmt::Formatter<'_>) -> std::fmt::Result {
        // Must not print anything id-like: it ends up inside `format!("{:?}", session)`.
        f.write_str("Monitor")
    }
}

fn errs<E: std::fmt::Debug>(r: &Result<impl Sized, E>) -> Option<String> {
    r.as_ref().err().map(|e| {
        let s = format!("{e:?}");
        s.chars().take(120).collect()
    })
}

#[async_trait::async_trait]
impl SessionStorageBackend for Monitor {
    async fn create(&self, id: &SessionId, record: SessionRecordRef<'_>) -> Result<(), CreateError> {
        let r = self.inner.create(id, record).await;
        self.log.push(Call { op: "create", ids: vec![id_str(id)], ok: r.is_ok(), err: errs(&r) });
        r
    }

    async fn update(&self, id: &SessionId, record: SessionRecordRef<'_>) -> Result<(), UpdateError> {
        if FAIL_NEXT_UPDATE.with(|f| f.replace(false)) {
            // injected environment fault: a transient error of the storage backend
            self.log.push(Call { op: "update", ids: vec![id_str(id)], ok: false, err: Some("injected transient fault".into()) });
            return Err(UpdateError::Other(anyhow::anyhow!("injected transient fault")));
        }
        let r = self.inner.update(id, record).await;
        self.log.push(Call { op: "update", ids: vec![id_str(id)], ok: r.is_ok(), err: errs(&r) });
        r
    }

    async fn update_ttl(&self, id: &SessionId, ttl: std::time::Duration) -> Result<(), UpdateTtlError> {
        let r = self.inner.update_ttl(id, ttl).await;
        self.log.push(Call { op: "update_ttl", ids: vec![id_str(id)], ok: r.is_ok(), err: errs(&r) });
        r
    }

    async fn load(&self, id: &SessionId) -> Result<Option<SessionRecord>, LoadError> {
        let r = self.inner.load(id).await;
        self.log.push(Call { op: "load", ids: vec![id_str(id)], ok: r.is_ok(), err: errs(&r) });
        r
    }

    async fn delete(&self, id: &SessionId) -> Result<(), DeleteError> {
        let r = self.inner.delete(id).await;
        self.log.push(Call { op: "delete", ids: vec![id_str(id)], ok: r.is_ok(), err: errs(&r) });
        r
    }

    async fn change_id(&self, old_id: &SessionId, new_id: &SessionId) -> Result<(), ChangeIdError> {
        let r = self.inner.change_id(old_id, new_id).await;
        self.log.push(Call {
            op: "change_id",
            ids: vec![id_str(old_id), id_str(new_id)],
            ok: r.is_ok(),
            err: errs(&r),
        });
        r
    }

    async fn delete_expired(&self, batch_size: Option<NonZeroUsize>) -> Result<usize, DeleteExpiredError> {
        let r = self.inner.delete_expired(batch_size).await;
        self.log.push(Call { op: "delete_expired", ids: vec![], ok: r.is_ok(), err: errs(&r) });
        r
    }
}
