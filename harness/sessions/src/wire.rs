//! Independent (harness-owned) decoders for what goes over the wire: percent-decoding,
//! base64url, `Set-Cookie` parsing, and a minimal browser cookie jar.

pub fn pct_decode(s: &str) -> Option<String> {
    let b = s.as_bytes();
    let mut out = Vec::with_capacity(b.len());
    let mut i = 0;
    while i < b.len() {
        if b[i] == b'%' {
            let h = hex(*b.get(i + 1)?)?;
            let l = hex(*b.get(i + 2)?)?;
            out.push(h * 16 + l);
            i += 3;
        } else {
            out.push(b[i]);
            i += 1;
        }
    }
    String::from_utf8(out).ok()
}

fn hex(c: u8) -> Option<u8> {
    match c {
        b'0'..=b'9' => Some(c - b'0'),
        b'a'..=b'f' => Some(c - b'a' + 10),
        b'A'..=b'F' => Some(c - b'A' + 10),
        _ => None,
    }
}

/// base64url without padding (also accepts the standard alphabet and trailing `=`).
pub fn b64_decode(s: &str) -> Option<Vec<u8>> {
    let mut out = Vec::with_capacity(s.len() * 3 / 4 + 3);
    let mut acc: u32 = 0;
    let mut bits = 0u32;
    for c in s.bytes() {
        let v = match c {
            b'A'..=b'Z' => c - b'A',
            b'a'..=b'z' => c - b'a' + 26,
            b'0'..=b'9' => c - b'0' + 52,
            b'-' | b'+' => 62,
            b'_' | b'/' => 63,
            b'=' => continue,
            _ => return None,
        } as u32;
        acc = (acc << 6) | v;
        bits += 6;
        if bits >= 8 {
            bits -= 8;
            out.push(((acc >> bits) & 0xff) as u8);
        }
    }
    Some(out)
}

#[derive(Clone, Debug)]
pub struct SetCookie {
    pub raw: String,
    pub name_wire: String,
    pub value_wire: String,
    /// lower-cased attribute name -> value (if any)
    pub attrs: Vec<(String, Option<String>)>,
}

impl SetCookie {
    pub fn parse(raw: &str) -> Option<SetCookie> {
        let mut parts = raw.split(';');
        let first = parts.next()?;
        let (n, v) = first.split_once('=')?;
        let mut attrs = Vec::new();
        for p in parts {
            let p = p.trim();
            if p.is_empty() {
                continue;
            }
            match p.split_once('=') {
                Some((k, v)) => attrs.push((k.trim().to_ascii_lowercase(), Some(v.trim().to_string()))),
                None => attrs.push((p.to_ascii_lowercase(), None)),
            }
        }
        Some(SetCookie {
            raw: raw.to_string(),
            name_wire: n.trim().to_string(),
            value_wire: v.trim().to_string(),
            attrs,
        })
    }
    pub fn attr(&self, k: &str) -> Option<&Option<String>> {
        self.attrs.iter().find(|(n, _)| n == k).map(|(_, v)| v)
    }
    pub fn has(&self, k: &str) -> bool {
        self.attr(k).is_some()
    }
    pub fn attr_val(&self, k: &str) -> Option<String> {
        self.attr(k).and_then(|v| v.clone())
    }
    /// What a browser does with it: a cookie whose `Max-Age` is <= 0 or whose `Expires` lies in the
    /// past deletes the stored cookie with the same (name, domain, path).
    pub fn is_removal(&self) -> bool {
        if let Some(ma) = self.attr_val("max-age") {
            if let Ok(n) = ma.parse::<i64>() {
                return n <= 0;
            }
        }
        if let Some(e) = self.attr_val("expires") {
            // "Thu, 01 Jan 1970 00:00:00 GMT"
            for tok in e.split(|c: char| c == ' ' || c == '-') {
                if tok.len() == 4 {
                    if let Ok(y) = tok.parse::<i32>() {
                        return y < 2020;
                    }
                }
            }
        }
        false
    }
}

/// Textual forms of a UUID that must never show up where the id is supposed to be hidden.
pub fn id_forms(hyphenated_lower: &str) -> Vec<String> {
    let h = hyphenated_lower.to_ascii_lowercase();
    let simple: String = h.chars().filter(|c| *c != '-').collect();
    vec![h.clone(), h.to_ascii_uppercase(), simple.clone(), simple.to_ascii_uppercase()]
}

pub fn contains_any(hay: &str, needles: &[String]) -> Option<String> {
    for n in needles {
        if hay.contains(n.as_str()) {
            return Some(n.clone());
        }
    }
    None
}
