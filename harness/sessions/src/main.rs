//! Runtime monitor for C11 (session continuity) and C12 (session cookie protection).
//!
//!   sessions --mode c11|c12 --seed N --tier quick|thorough [--threads T] [--histories N]
//!            [--budget-s S] [--sqlite-threads K] [--replay FILE]
mod cfg;
mod hist;
mod monitor;
mod rng;
mod run;
mod wire;

use cfg::{CaseCfg, Env};
use hist::History;
use pavex_session::store::SessionStorageBackend;
use rng::{Rng, fnv};
use run::{Mode, Outcome, Stats, Violation, run_history};
use serde_json::{Value, json};
use std::cell::RefCell;
use std::collections::{BTreeMap, BTreeSet};
use std::panic::{AssertUnwindSafe, catch_unwind};
use std::sync::Arc;
use std::time::{Duration, Instant};

thread_local! {
    static LAST_PANIC: RefCell<Option<String>> = const { RefCell::new(None) };
}

struct Args {
    mode: Mode,
    seed: u64,
    tier: String,
    threads: usize,
    sqlite_threads: usize,
    histories: Option<u64>,
    budget_s: f64,
    replay: Option<String>,
}

fn parse_args() -> Args {
    let mut a = Args {
        mode: Mode::C11,
        seed: 1,
        tier: "quick".into(),
        threads: 0,
        sqlite_threads: usize::MAX,
        histories: None,
        budget_s: 0.0,
        replay: None,
    };
    let argv: Vec<String> = std::env::args().collect();
    let mut i = 1;
    while i < argv.len() {
        let v = argv.get(i + 1).cloned().unwrap_or_default();
        match argv[i].as_str() {
            "--mode" => a.mode = if v == "c12" { Mode::C12 } else { Mode::C11 },
            "--seed" => a.seed = v.parse().unwrap_or(1),
            "--tier" => a.tier = v,
            "--threads" => a.threads = v.parse().unwrap_or(0),
            "--sqlite-threads" => a.sqlite_threads = v.parse().unwrap_or(0),
            "--histories" => a.histories = v.parse().ok(),
            "--budget-s" => a.budget_s = v.parse().unwrap_or(0.0),
            "--replay" => a.replay = Some(v),
            _ => {
                i += 1;
                continue;
            }
        }
        i += 2;
    }
    let quick = a.tier != "thorough";
    if a.threads == 0 {
        a.threads = if quick { 4 } else { 14 };
    }
    if a.sqlite_threads == usize::MAX {
        a.sqlite_threads = if quick { 0 } else { 2 };
    }
    if a.budget_s <= 0.0 {
        a.budget_s = if quick { 40.0 } else { 480.0 };
    }
    a
}

/// A SQLite-backed store on a scratch database file under /verif/build (so that a reconnect
/// after a contained panic sees the same tables).
fn sqlite_backend(rt: &tokio::runtime::Runtime, tag: &str) -> Option<Arc<dyn SessionStorageBackend>> {
    use sqlx::sqlite::{SqliteConnectOptions, SqliteJournalMode, SqlitePoolOptions, SqliteSynchronous};
    let dir = std::env::var("VERIF_SESSIONS_DB_DIR").unwrap_or_else(|_| "/verif/build/sessions-sqlite".to_string());
    let _ = std::fs::create_dir_all(&dir);
    let path = format!("{dir}/{}-{tag}.db", std::process::id());
    rt.block_on(async {
        let opts = SqliteConnectOptions::new()
            .filename(&path)
            .create_if_missing(true)
            .journal_mode(SqliteJournalMode::Memory)
            .synchronous(SqliteSynchronous::Off);
        let pool = SqlitePoolOptions::new().max_connections(1).connect_with(opts).await.ok()?;
        let store = pavex_session_sqlx::SqliteSessionStore::new(pool);
        store.migrate().await.ok()?;
        let b: Arc<dyn SessionStorageBackend> = Arc::new(store);
        Some(b)
    })
}

fn sqlite_cleanup(tag: &str) {
    let dir = std::env::var("VERIF_SESSIONS_DB_DIR").unwrap_or_else(|_| "/verif/build/sessions-sqlite".to_string());
    for suffix in ["", "-journal", "-wal", "-shm"] {
        let _ = std::fs::remove_file(format!("{dir}/{}-{tag}.db{suffix}", std::process::id()));
    }
}

fn new_rt() -> tokio::runtime::Runtime {
    tokio::runtime::Builder::new_current_thread().enable_all().build().expect("tokio runtime")
}

/// One guarded execution: panics of the code under test become violations.
fn guarded(
    rt: &mut tokio::runtime::Runtime,
    case: &CaseCfg,
    key_seed: u64,
    backend: &mut Option<Arc<dyn SessionStorageBackend>>,
    sqlite_tag: Option<&str>,
    h: &History,
    mode: Mode,
) -> Outcome {
    LAST_PANIC.with(|p| *p.borrow_mut() = None);
    let res = catch_unwind(AssertUnwindSafe(|| {
        let mut kr = Rng::new(key_seed);
        let env = Env::new(case, &mut kr, backend.clone());
        rt.block_on(run_history(&env, h, mode))
    }));
    match res {
        Ok(o) => o,
        Err(_) => {
            let msg = LAST_PANIC.with(|p| p.borrow_mut().take()).unwrap_or_else(|| "<no message>".into());
            // a fresh runtime: the old one may have been left half-way through a task
            *rt = new_rt();
            if let Some(tag) = sqlite_tag {
                // the pool belonged to the runtime that was just replaced
                *backend = sqlite_backend(rt, tag);
            }
            let place = msg.split(" @ ").nth(1).unwrap_or("?").to_string();
            // signature: file name (no directory, no line number: both move with unrelated edits)
            // and the head of the message
            let file = place.rsplit('/').next().unwrap_or("?").split(':').next().unwrap_or("?").to_string();
            let head: String = msg.split(" @ ").next().unwrap_or("").chars().take(60).collect();
            let (during, state, ctx) = run::CURRENT.with(|c| c.borrow().clone());
            let mut stats = Stats::default();
            stats.bump("histories");
            stats.bump("panics");
            Outcome {
                violation: Some(Violation {
                    sig: if ctx.is_empty() {
                        json!({"kind": "panic", "rule": "panic", "file": file, "message": head, "during": during, "state": state})
                    } else {
                        json!({"kind": "panic", "rule": "panic", "file": file, "message": head, "ctx": ctx})
                    },
                    detail: json!({"panic": msg, "at": place, "during": during, "state": state, "config": case.label(), "history": h.show(),
                        "replay": {"mode": if mode == Mode::C11 {"c11"} else {"c12"}, "cfg": case.to_json(), "history": h.to_json()}}),
                }),
                inconclusive: None,
                stats,
                path: String::new(),
                nontrivial: false,
                trace: vec![],
            }
        }
    }
}

fn sig_key(v: &Value) -> String {
    // `via`-like context is not part of the identity used for de-duplication / shrinking
    v.to_string()
}

/// Greedy history minimisation: drop requests / operations while the same signature reproduces.
fn shrink(
    rt: &mut tokio::runtime::Runtime,
    case: &CaseCfg,
    key_seed: u64,
    backend: &mut Option<Arc<dyn SessionStorageBackend>>,
    sqlite_tag: Option<&str>,
    h: &History,
    mode: Mode,
    want: &str,
    first: Violation,
) -> (History, Violation, u64) {
    let mut best = h.clone();
    let mut best_v = first;
    let mut runs = 0u64;
    let mut progress = true;
    while progress && runs < 600 {
        progress = false;
        // whole requests
        let mut i = 0;
        while i < best.reqs.len() && runs < 600 {
            if best.reqs.len() > 1 {
                let mut c = best.clone();
                c.reqs.remove(i);
                runs += 1;
                let o = guarded(rt, case, key_seed, backend, sqlite_tag, &c, mode);
                if let Some(v) = o.violation {
                    if sig_key(&v.sig) == want {
                        best = c;
                        best_v = v;
                        progress = true;
                        continue;
                    }
                }
            }
            i += 1;
        }
        // single operations
        let mut ri = 0;
        while ri < best.reqs.len() && runs < 600 {
            let mut oi = 0;
            while oi < best.reqs[ri].ops.len() && runs < 600 {
                let mut c = best.clone();
                c.reqs[ri].ops.remove(oi);
                runs += 1;
                let o = guarded(rt, case, key_seed, backend, sqlite_tag, &c, mode);
                if let Some(v) = o.violation {
                    if sig_key(&v.sig) == want {
                        best = c;
                        best_v = v;
                        progress = true;
                        continue;
                    }
                }
                oi += 1;
            }
            ri += 1;
        }
        // simplify request decorations
        for ri in 0..best.reqs.len() {
            if best.reqs[ri].long_ttl || best.reqs[ri].extra_cookie || best.reqs[ri].src != hist::Src::Jar {
                let mut c = best.clone();
                c.reqs[ri].long_ttl = false;
                c.reqs[ri].extra_cookie = false;
                c.reqs[ri].src = hist::Src::Jar;
                runs += 1;
                let o = guarded(rt, case, key_seed, backend, sqlite_tag, &c, mode);
                if let Some(v) = o.violation {
                    if sig_key(&v.sig) == want {
                        best = c;
                        best_v = v;
                        progress = true;
                    }
                }
            }
        }
    }
    (best, best_v, runs)
}

#[derive(Default)]
struct ThreadResult {
    stats: Stats,
    distinct: BTreeSet<String>,
    violations: BTreeMap<String, (Violation, u64, usize)>, // sig key -> (smallest witness, count, size)
    inconclusive: Vec<(String, Value)>,
    samples: Vec<Value>,
    configs_seen: BTreeSet<String>,
    histories: u64,
    timed_out: bool,
}

fn worker(args: &Args, ti: usize, use_sqlite: bool, n_hist: u64, deadline: Instant) -> ThreadResult {
    let mut rt = new_rt();
    let mut res = ThreadResult::default();
    let tag = format!("t{ti}");
    let mut backend = if use_sqlite {
        match sqlite_backend(&rt, &tag) {
            Some(b) => Some(b),
            None => {
                res.inconclusive.push(("sqlite store could not be set up".into(), json!({"thread": ti})));
                return res;
            }
        }
    } else {
        None
    };
    let mode = args.mode;
    let base = Rng::new(args.seed).derive(1000 + ti as u64);
    let configs = cfg::c11_configs();
    let mut shrunk: BTreeSet<String> = BTreeSet::new();
    for n in 0..n_hist {
        if n % 64 == 0 && Instant::now() > deadline {
            res.timed_out = true;
            break;
        }
        let mut rng = base.derive(n);
        let (case, h) = match mode {
            Mode::C11 => {
                let mut case = configs[((n as usize) + ti * 7) % configs.len()].clone();
                // not part of the enumerated space, but the removal cookie only works if it
                // names the same domain/path as the cookie it is meant to remove
                case.cookie.domain = cfg::C12_DOMAINS[rng.below(3) as usize].map(|s| s.to_string());
                case.cookie.path = cfg::C12_PATHS[rng.below(3) as usize].map(|s| s.to_string());
                let h = hist::gen_history(&mut rng, 6, true, true);
                (case, h)
            }
            Mode::C12 => {
                let mut case = cfg::c12_random_cfg(&mut rng);
                // walk crypto kinds x names systematically, the rest randomly
                case.crypto = cfg::ALL_CRYPTO[(n as usize + ti) % cfg::ALL_CRYPTO.len()];
                case.cookie.name = cfg::C12_NAMES[((n as usize) / cfg::ALL_CRYPTO.len()) % cfg::C12_NAMES.len()].to_string();
                if case.crypto == cfg::Crypto::EncodedNameEncrypt && !cfg::name_needs_encoding(&case.cookie.name) {
                    case.cookie.name = "my session".into();
                }
                // endings: empty client state / non-empty client state / invalidated
                let ending = (n / 55) % 3;
                let client_ops = ending == 1 || rng.chance(1, 3);
                let mut h = hist::gen_history(&mut rng, 3, client_ops, false);
                // explicit sync() adds nothing to C12 (and would only re-trigger C11's findings)
                for r in h.reqs.iter_mut() {
                    r.ops.retain(|o| *o != hist::Op::Sync);
                }
                if let Some(last_work) = h.reqs.len().checked_sub(2) {
                    let r = &mut h.reqs[last_work];
                    match ending {
                        1 => r.ops.push(hist::Op::CInsert { k: (n % 3) as u8, typed: n % 2 == 0 }),
                        2 => r.ops.push(hist::Op::Invalidate),
                        _ => r.ops.push(hist::Op::CClear),
                    }
                }
                (case, h)
            }
        };
        let key_seed = rng.next();
        let stag = if use_sqlite { Some(tag.as_str()) } else { None };
        let o = guarded(&mut rt, &case, key_seed, &mut backend, stag, &h, mode);
        if use_sqlite && backend.is_none() {
            res.inconclusive.push(("sqlite store could not be re-opened".into(), json!({"thread": ti})));
            break;
        }
        res.histories += 1;
        res.stats.merge(&o.stats);
        res.configs_seen.insert(match mode {
            Mode::C11 => case.state_label(),
            Mode::C12 => format!("{}|{}", case.crypto.label(), case.cookie.name),
        });
        if use_sqlite {
            res.stats.bump("histories_on_sqlite");
        }
        if o.nontrivial {
            res.stats.bump("nontrivial_histories");
            if res.distinct.len() < 20000 {
                let key = match mode {
                    Mode::C11 => format!("{}|{}", case.state_label(), o.path),
                    Mode::C12 => format!("{}|{}", case.label(), o.path),
                };
                res.distinct.insert(fnv(&key));
            }
            if res.samples.len() < 2 && o.violation.is_none() && h.n_ops() > 12 && (n % 97 == 3 || res.samples.is_empty()) {
                res.samples.push(json!({"config": case.label(), "history": h.show(), "abstract_path": o.path,
                                        "trace_tail": o.trace.iter().rev().take(6).rev().cloned().collect::<Vec<_>>()}));
            }
        }
        if let Some((w, d)) = o.inconclusive {
            if res.inconclusive.len() < 5 {
                res.inconclusive.push((w, d));
            }
            res.stats.bump("inconclusive_histories");
        }
        if let Some(v) = o.violation {
            let key = sig_key(&v.sig);
            res.stats.bump("violating_histories");
            let size = h.n_ops() + 3 * h.reqs.len();
            if !shrunk.contains(&key) {
                shrunk.insert(key.clone());
                let (hs, mut vs, runs) = shrink(&mut rt, &case, key_seed, &mut backend, stag, &h, mode, &key, v.clone());
                if let Some(d) = vs.detail.as_object_mut() {
                    d.insert("shrunk_from".into(), json!(h.show()));
                    d.insert("shrink_runs".into(), json!(runs));
                    d.insert("store".into(), json!(if use_sqlite { "sqlite" } else { "memory" }));
                }
                let ssize = hs.n_ops() + 3 * hs.reqs.len();
                res.violations.insert(key, (vs, 1, ssize));
            } else if let Some(e) = res.violations.get_mut(&key) {
                e.1 += 1;
                let _ = size;
            }
        }
    }
    if use_sqlite {
        drop(backend);
        drop(rt);
        sqlite_cleanup(&tag);
    }
    res
}

fn run_replay(args: &Args, file: &str) {
    let text = std::fs::read_to_string(file).unwrap_or_default();
    let v: Value = serde_json::from_str(&text).unwrap_or(Value::Null);
    let rp = v.pointer("/detail/replay").cloned().unwrap_or(Value::Null);
    let mode = if rp.get("mode").and_then(|m| m.as_str()) == Some("c12") { Mode::C12 } else { args.mode };
    let case = rp.get("cfg").and_then(CaseCfg::from_json);
    let h = rp.get("history").and_then(History::from_json);
    let (Some(case), Some(h)) = (case, h) else {
        println!("{}", json!({"kind": "inconclusive", "what": "replay file has no replayable history", "detail": file}));
        println!("{}", json!({"kind": "summary", "evaluations": 0, "distinct_keys": [], "samples": []}));
        return;
    };
    let mut rt = new_rt();
    let o = guarded(&mut rt, &case, args.seed, &mut None, None, &h, mode);
    if let Some(v) = &o.violation {
        println!("{}", json!({"kind": "violation", "sig": v.sig, "detail": v.detail}));
    }
    println!(
        "{}",
        json!({"kind": "summary", "evaluations": 1, "distinct_keys": [fnv(&o.path), fnv("replay")],
               "samples": [{"history": h.show(), "trace": o.trace}], "replayed": true,
               "reproduced": o.violation.is_some()})
    );
}

fn main() {
    std::panic::set_hook(Box::new(|info| {
        let msg = if let Some(s) = info.payload().downcast_ref::<&str>() {
            s.to_string()
        } else if let Some(s) = info.payload().downcast_ref::<String>() {
            s.clone()
        } else {
            "<non-string panic>".to_string()
        };
        let loc = info.location().map(|l| format!("{}:{}", l.file(), l.line())).unwrap_or_default();
        LAST_PANIC.with(|p| *p.borrow_mut() = Some(format!("{msg} @ {loc}")));
    }));
    let args = parse_args();
    if let Some(f) = args.replay.clone() {
        run_replay(&args, &f);
        return;
    }
    let quick = args.tier != "thorough";
    let total_threads = args.threads + args.sqlite_threads;
    let per_thread: u64 = args.histories.unwrap_or(match (args.mode, quick) {
        (Mode::C11, true) => 64 * 60,
        (Mode::C11, false) => 64 * 2500,
        (Mode::C12, true) => 55 * 3 * 40,
        (Mode::C12, false) => 55 * 3 * 1500,
    });
    let t0 = Instant::now();
    let deadline = t0 + Duration::from_secs_f64(args.budget_s);
    let results: Vec<ThreadResult> = std::thread::scope(|s| {
        let mut hs = Vec::new();
        for ti in 0..total_threads {
            let use_sqlite = ti >= args.threads;
            let a = &args;
            // the SQLite store is much slower: give it a smaller share
            let n = if use_sqlite { per_thread / 8 } else { per_thread };
            hs.push(s.spawn(move || worker(a, ti, use_sqlite, n, deadline)));
        }
        hs.into_iter().map(|h| h.join().unwrap_or_default()).collect()
    });

    let mut stats = Stats::default();
    let mut distinct: BTreeSet<String> = BTreeSet::new();
    let mut samples: Vec<Value> = vec![];
    let mut configs: BTreeSet<String> = BTreeSet::new();
    let mut viol: BTreeMap<String, (Violation, u64, usize)> = BTreeMap::new();
    let mut histories = 0u64;
    let mut timed_out = false;
    let mut inconc: Vec<(String, Value)> = vec![];
    for r in results {
        stats.merge(&r.stats);
        distinct.extend(r.distinct);
        for s in r.samples {
            if samples.len() < 5 {
                samples.push(s);
            }
        }
        configs.extend(r.configs_seen);
        histories += r.histories;
        timed_out |= r.timed_out;
        inconc.extend(r.inconclusive);
        for (k, (v, c, size)) in r.violations {
            match viol.get_mut(&k) {
                Some(e) => {
                    e.1 += c;
                    if size < e.2 {
                        e.0 = v;
                        e.2 = size;
                    }
                }
                None => {
                    viol.insert(k, (v, c, size));
                }
            }
        }
    }
    for (w, d) in inconc.iter().take(5) {
        println!("{}", json!({"kind": "inconclusive", "what": w, "detail": d}));
    }
    let mut viol_counts = BTreeMap::new();
    for (k, (v, c, _)) in &viol {
        viol_counts.insert(k.clone(), *c);
        let mut d = v.detail.clone();
        if let Some(o) = d.as_object_mut() {
            o.insert("occurrences_in_this_run".into(), json!(c));
        }
        println!("{}", json!({"kind": "violation", "sig": v.sig, "detail": d}));
    }
    let mut distinct_keys: Vec<String> = distinct.into_iter().collect();
    distinct_keys.truncate(20000);

    let mut out = json!({
        "kind": "summary",
        "mode": if args.mode == Mode::C11 {"c11"} else {"c12"},
        "evaluations": histories,
        "distinct_keys": distinct_keys,
        "samples": samples,
        "threads": args.threads,
        "sqlite_threads": args.sqlite_threads,
        "configs_covered": configs.len(),
        "violation_sig_counts": viol_counts,
        "time_budget_hit": timed_out,
        "elapsed_s": (t0.elapsed().as_secs_f64() * 10.0).round() / 10.0,
    });
    let o = out.as_object_mut().unwrap();
    for (k, v) in &stats.n {
        o.insert(k.clone(), json!(v));
    }
    for (c, m) in &stats.cat {
        o.insert(c.clone(), json!(m));
    }
    if args.mode == Mode::C11 {
        // which of the 3 x 5 x 2 abstract states were reached at finalisation time
        let reached: BTreeSet<String> =
            stats.cat.get("abstract_states_at_finalize").map(|m| m.keys().cloned().collect()).unwrap_or_default();
        let mut unreached = vec![];
        for idk in ["existing", "renamed", "new"] {
            for s in ["not_loaded", "loaded_unchanged", "changed", "absent", "marked_for_deletion"] {
                for c in ["client_unchanged", "client_changed"] {
                    let k = format!("{idk}/{s}/{c}");
                    if !reached.contains(&k) {
                        unreached.push(k);
                    }
                }
            }
        }
        o.insert("abstract_states_reached".into(), json!(reached.len()));
        o.insert("abstract_states_unreached".into(), json!(unreached));
        o.insert("configs_exhaustive".into(), json!(configs.len() == 64));
    }
    println!("{out}");
}
