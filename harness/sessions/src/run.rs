//! Drives one history through the real request path and watches it with the reference model.
//!
//! Real path per request:
//!   `Cookie` header -> `extract_request_cookies` (real `Processor`) -> `IncomingSession::extract`
//!   -> `Session::new` -> operations -> `finalize_session` -> `inject_response_cookies` -> `Set-Cookie`
//!   -> browser jar -> next `Cookie` header.
//!
//! Reference model: two plain maps (client, server) + current id + "is there a record" + flags.
use crate::cfg::{Env, Promise};
use crate::hist::{CKEYS, History, Op, Req, SKEYS, Src};
use crate::monitor::{Call, id_from};
use crate::wire::{self, SetCookie};
use pavex::Response;
use pavex::cookie::{ResponseCookies, extract_request_cookies, inject_response_cookies};
use pavex::http::header::{COOKIE, SET_COOKIE};
use pavex::http::{HeaderMap, HeaderValue, Method, Version};
use pavex::request::RequestHead;
use pavex_session::errors::FinalizeError;
use pavex_session::{IncomingSession, Session, SessionConfig, finalize_session};
use serde_json::{Value, json};
use std::collections::{BTreeMap, BTreeSet};

pub type Kv = BTreeMap<String, String>;

thread_local! {
    /// What the runner is doing right now: read by the panic guard to classify a panic.
    pub static CURRENT: std::cell::RefCell<(String, String, String)> = const { std::cell::RefCell::new((String::new(), String::new(), String::new())) };
}

fn set_current(during: &str, state: &str, ctx: &str) {
    CURRENT.with(|c| *c.borrow_mut() = (during.to_string(), state.to_string(), ctx.to_string()));
}

#[derive(Clone, Copy, PartialEq, Debug)]
pub enum Mode {
    C11,
    C12,
}

#[derive(Clone, Debug)]
pub struct Violation {
    pub sig: Value,
    pub detail: Value,
}

#[derive(Default, Clone, Debug)]
pub struct Stats {
    pub n: BTreeMap<String, u64>,
    pub cat: BTreeMap<String, BTreeMap<String, u64>>,
}

impl Stats {
    pub fn bump(&mut self, k: &str) {
        *self.n.entry(k.to_string()).or_insert(0) += 1;
    }
    pub fn add(&mut self, k: &str, v: u64) {
        *self.n.entry(k.to_string()).or_insert(0) += v;
    }
    pub fn cbump(&mut self, cat: &str, k: &str) {
        *self.cat.entry(cat.to_string()).or_default().entry(k.to_string()).or_insert(0) += 1;
    }
    pub fn merge(&mut self, o: &Stats) {
        for (k, v) in &o.n {
            *self.n.entry(k.clone()).or_insert(0) += v;
        }
        for (c, m) in &o.cat {
            let d = self.cat.entry(c.clone()).or_default();
            for (k, v) in m {
                *d.entry(k.clone()).or_insert(0) += v;
            }
        }
    }
}

pub struct Outcome {
    pub violation: Option<Violation>,
    pub inconclusive: Option<(String, Value)>,
    pub stats: Stats,
    /// abstract path (for `distinct_keys`)
    pub path: String,
    pub nontrivial: bool,
    pub trace: Vec<String>,
}

#[derive(Clone, PartialEq, Debug)]
enum Srv {
    NotLoaded,
    Rec(Kv),
    Absent,
    Deleted,
}

#[derive(Clone, Debug)]
struct Emitted {
    name_wire: String,
    value_wire: String,
    domain: Option<String>,
    path: Option<String>,
    id: String,
    /// The client-side state the *model* says this cookie carries.
    client: Kv,
    /// Index of the request whose response carried it.
    by: usize,
}

#[derive(Clone, Debug, Default)]
struct ReqMeta {
    had: Option<String>,
    end_id: Option<String>,
    cookie_parent: Option<usize>,
    ctx: &'static str,
    /// Set when the record vanished under a loaded state in this request and the request cycled
    /// the id: the abstract server state at finalisation (loaded_unchanged / changed).
    vanish: Option<&'static str>,
}

#[derive(Clone, Debug)]
struct Event {
    req: usize,
    side: char,
    key: Option<String>,
    what: &'static str,
    state: &'static str,
    /// Was an explicit `sync()` issued earlier in the same request on a new / a renamed session?
    ctx: &'static str,
    /// Persistence epoch: a new one starts with every request and after every explicit `sync()`.
    epoch: u32,
}

struct ReqModel {
    had: Option<String>,
    client: Kv,
    client_touched: bool,
    srv: Srv,
    srv_mutated: bool,
    invalidated: bool,
    cycled: bool,
    synced: bool,
    synced_after_cycle: bool,
    /// After `cycle_id(); sync()` the record already lives under the new id (learnt from the
    /// monitor's log of the `change_id`/`create` call).
    moved_to: Option<String>,
    /// What the model says the store holds for this session right now (start of the request, or
    /// the last successful explicit sync). Used for diagnosis only.
    persisted: Kv,
    /// The environment made the record of the old id vanish after the state had been loaded.
    vanished: bool,
    notes: Vec<String>,
}

impl ReqModel {
    fn srv_label(&self) -> &'static str {
        match &self.srv {
            Srv::NotLoaded => "not_loaded",
            Srv::Rec(_) if self.srv_mutated => "changed",
            Srv::Rec(_) => "loaded_unchanged",
            Srv::Absent => "absent",
            Srv::Deleted => "marked_for_deletion",
        }
    }
    fn client_label(&self) -> &'static str {
        if self.client_touched { "changed" } else { "unchanged" }
    }
    fn ctx(&self) -> &'static str {
        if self.had.is_none() && self.synced {
            "explicit_sync_on_new_session"
        } else if self.synced_after_cycle {
            "explicit_sync_after_cycle_id"
        } else {
            ""
        }
    }
    fn id_kind(&self) -> &'static str {
        match (&self.had, self.cycled) {
            (None, _) => "new",
            (Some(_), true) => "renamed",
            (Some(_), false) => "existing",
        }
    }
}

#[derive(Debug, PartialEq, Clone)]
enum Ret {
    Val(Option<String>),
    Bool(bool),
    Unit,
}

fn vs(v: &Value) -> String {
    v.as_str().map(|s| s.to_string()).unwrap_or_else(|| format!("<json:{v}>"))
}

fn es<E: std::fmt::Debug>(e: E) -> String {
    format!("{e:?}").chars().take(200).collect()
}

async fn exec(session: &mut Session<'_>, op: &Op, tok: &str) -> Result<Ret, String> {
    Ok(match op {
        Op::SGet { k, typed: true } => Ret::Val(session.get::<String>(SKEYS[*k as usize]).await.map_err(es)?),
        Op::SGet { k, typed: false } => {
            Ret::Val(session.get_raw(SKEYS[*k as usize]).await.map_err(es)?.map(vs))
        }
        Op::SInsert { k, typed: true } => Ret::Val(
            session.insert(SKEYS[*k as usize].to_string(), tok.to_string()).await.map_err(es)?.as_ref().map(vs),
        ),
        Op::SInsert { k, typed: false } => Ret::Val(
            session
                .insert_raw(SKEYS[*k as usize].to_string(), Value::String(tok.to_string()))
                .await
                .map_err(es)?
                .as_ref()
                .map(vs),
        ),
        Op::SRemove { k, typed: true } => {
            Ret::Val(session.remove::<String>(SKEYS[*k as usize]).await.map_err(es)?)
        }
        Op::SRemove { k, typed: false } => {
            Ret::Val(session.remove_raw(SKEYS[*k as usize]).await.map_err(es)?.as_ref().map(vs))
        }
        Op::SClear => {
            session.clear().await.map_err(es)?;
            Ret::Unit
        }
        Op::SIsEmpty => Ret::Bool(session.is_empty().await.map_err(es)?),
        Op::ForceLoad => {
            session.force_load().await.map_err(es)?;
            Ret::Unit
        }
        Op::Sync => {
            session.sync().await.map_err(|e| format!("SYNC:{}", es(e)))?;
            Ret::Unit
        }
        Op::SyncFault => {
            crate::monitor::FAIL_NEXT_UPDATE.with(|f| f.set(true));
            let r = session.sync().await;
            let consumed = !crate::monitor::FAIL_NEXT_UPDATE.with(|f| f.replace(false));
            match (r, consumed) {
                (Err(_), true) => Ret::Unit,
                (Ok(()), false) => return Err("SYNCFAULT-NOT-REACHED".into()),
                (Ok(()), true) => return Err("SYNCFAULT: sync() reported success although the store failed".into()),
                (Err(e), false) => return Err(format!("SYNC:{}", es(e))),
            }
        }
        Op::Delete => {
            session.delete();
            Ret::Unit
        }
        Op::CycleId => {
            session.cycle_id();
            Ret::Unit
        }
        Op::Invalidate => {
            session.invalidate();
            Ret::Unit
        }
        Op::CGet { k, typed, via_mut } => {
            let key = CKEYS[*k as usize];
            Ret::Val(match (typed, via_mut) {
                (true, true) => session.client_mut().get::<String>(key).map_err(es)?,
                (true, false) => session.client().get::<String>(key).map_err(es)?,
                (false, true) => session.client_mut().get_raw(key).map(vs),
                (false, false) => session.client().get_raw(key).map(vs),
            })
        }
        Op::CInsert { k, typed: true } => Ret::Val(
            session.client_mut().insert(CKEYS[*k as usize].to_string(), tok.to_string()).map_err(es)?.as_ref().map(vs),
        ),
        Op::CInsert { k, typed: false } => Ret::Val(
            session
                .client_mut()
                .insert_raw(CKEYS[*k as usize].to_string(), Value::String(tok.to_string()))
                .as_ref()
                .map(vs),
        ),
        Op::CRemove { k, typed: true } => {
            Ret::Val(session.client_mut().remove::<String>(CKEYS[*k as usize]).map_err(es)?)
        }
        Op::CRemove { k, typed: false } => {
            Ret::Val(session.client_mut().remove_raw(CKEYS[*k as usize]).as_ref().map(vs))
        }
        Op::CClear => {
            session.client_mut().clear();
            Ret::Unit
        }
        Op::CIsEmpty { via_mut: true } => Ret::Bool(session.client_mut().is_empty()),
        Op::CIsEmpty { via_mut: false } => Ret::Bool(session.client().is_empty()),
        Op::Vanish => Ret::Unit, // handled by the runner, never reaches the session
    })
}

/// Errors of the store's plumbing (database file, pool) say nothing about the property.
fn infra_error(e: &str) -> bool {
    e.contains("error returned from database") || e.contains("no such table") || e.contains("pool timed out")
        || e.contains("PoolClosed") || e.contains("PoolTimedOut") || e.contains("database is locked")
        || e.contains("WorkerCrashed")
}

fn calls_label(calls: &[Call]) -> String {
    if calls.is_empty() {
        return "-".into();
    }
    calls
        .iter()
        .map(|c| if c.ok { c.op.to_string() } else { format!("{}!", c.op) })
        .collect::<Vec<_>>()
        .join("+")
}

struct Runner<'e> {
    env: &'e Env,
    mode: Mode,
    store: BTreeMap<String, Kv>,
    emitted: Vec<Emitted>,
    jar: Option<usize>,
    dead: BTreeMap<String, &'static str>,
    events: Vec<Event>,
    structural: Vec<(usize, &'static str)>,
    stats: Stats,
    trace: Vec<String>,
    tok: u64,
    path: Vec<String>,
    boundaries: u64,
    debug_texts: Vec<(usize, String)>,
    all_tokens_old: BTreeSet<String>,
    meta: Vec<ReqMeta>,
    epoch: u32,
}

enum Stop {
    Violation(Violation),
    Inconclusive(String, Value),
    /// The history cannot be continued meaningfully (e.g. an accepted finalisation failure).
    Abandon,
}

impl<'e> Runner<'e> {
    async fn observe(&self, id: &str) -> Option<Kv> {
        let sid = id_from(id)?;
        match self.env.inner.load(&sid).await {
            Ok(Some(r)) => Some(r.state.iter().map(|(k, v)| (k.to_string(), vs(v))).collect()),
            _ => None,
        }
    }

    /// The last operation that (per the model) changed this key on this side *of the session the
    /// current request is looking at*, the abstract state it was applied in, and its context.
    fn cause(&self, ri: usize, side: char, key: Option<&str>) -> (String, bool, Vec<&'static str>, &'static str) {
        // Which earlier requests fed the state this request sees?
        let mut relevant: BTreeSet<usize> = BTreeSet::new();
        relevant.insert(ri);
        if side == 'c' {
            // client state travels inside the cookie
            let mut r = ri;
            while let Some(p) = self.meta.get(r).and_then(|m| m.cookie_parent) {
                if !relevant.insert(p) {
                    break;
                }
                r = p;
            }
        } else if let Some(mut cur) = self.meta.get(ri).and_then(|m| m.had.clone()) {
            // server state lives in the store under the id: whoever wrote that id last (following renames)
            for r in (0..ri).rev() {
                if self.meta[r].end_id.as_ref() == Some(&cur) {
                    relevant.insert(r);
                    match &self.meta[r].had {
                        Some(y) => cur = y.clone(),
                        None => break,
                    }
                }
            }
        }
        let ev = self.events.iter().rev().find(|e| {
            e.side == side && relevant.contains(&e.req) && (key.is_none() || e.key.is_none() || e.key.as_deref() == key)
        });
        match ev {
            Some(e) => {
                let same_req = e.req == ri;
                let via: BTreeSet<&'static str> = self
                    .structural
                    .iter()
                    .filter(|(r, _)| *r >= e.req && relevant.contains(r))
                    .map(|(_, w)| *w)
                    .collect();
                // Across a request boundary what matters is whether the epoch's changes were persisted
                // at all, and that is decided by the *first* change of the epoch (it moves the state
                // to its changed form): name that one.
                let first = if same_req {
                    e
                } else {
                    self.events.iter().find(|f| f.side == side && f.epoch == e.epoch).unwrap_or(e)
                };
                // the record vanished under a loaded state in a request (on this lineage, at or after
                // the change) that cycled the id: that fault is the input class
                if side == 's' {
                    if let Some((vr, kind)) = relevant
                        .iter()
                        .filter(|r| **r >= e.req && **r < ri)
                        .find_map(|r| self.meta[*r].vanish.map(|k| (*r, k)))
                    {
                        // ... unless a later request on the lineage belongs to a `ctx` class of its own
                        let later_ctx = relevant.iter().any(|r| *r > vr && !self.meta[*r].ctx.is_empty());
                        if !later_ctx {
                            return (format!("record_vanished_before_cycle_id/{kind}"), false, via.into_iter().collect(), "");
                        }
                    }
                }
                let mut ctx = if !e.ctx.is_empty() { e.ctx } else { first.ctx };
                if ctx.is_empty() {
                    // ... or any request in between, on the same lineage, that did
                    for r in relevant.iter().filter(|r| **r >= e.req) {
                        if !self.meta[*r].ctx.is_empty() {
                            ctx = self.meta[*r].ctx;
                            break;
                        }
                    }
                }
                (format!("{}_on_{}", first.what, first.state), same_req, via.into_iter().collect(), ctx)
            }
            None => {
                if side == 's' {
                    if let Some((vr, kind)) =
                        relevant.iter().filter(|r| **r < ri).find_map(|r| self.meta[*r].vanish.map(|k| (*r, k)))
                    {
                        let later_ctx = relevant.iter().any(|r| *r > vr && !self.meta[*r].ctx.is_empty());
                        if !later_ctx {
                            return (format!("record_vanished_before_cycle_id/{kind}"), false, vec![], "");
                        }
                    }
                }
                ("no_prior_mutation".to_string(), false, vec![], "")
            }
        }
    }

    fn violation(&self, sig: Value, extra: Value, h: &History) -> Stop {
        // Histories in which `sync()` was called by hand on a new / renamed session form one input
        // class each: the signature is then (rule, ctx), the computed cause moves to the detail.
        let mut sig = sig;
        let mut extra = extra;
        if sig.get("ctx").is_some() {
            if let Some(c) = sig.as_object_mut().and_then(|o| o.remove("cause")) {
                extra["cause"] = c;
            }
        }
        Stop::Violation(Violation {
            sig,
            detail: json!({
                "config": self.env.case.label(),
                "history": h.show(),
                "what": extra,
                "trace": self.trace,
                "replay": {"mode": if self.mode == Mode::C11 {"c11"} else {"c12"},
                           "cfg": self.env.case.to_json(), "history": h.to_json()},
            }),
        })
    }

    fn session_cfg(&self, req: &Req) -> &'e SessionConfig {
        if req.long_ttl { &self.env.cfg_long } else { &self.env.cfg_short }
    }

    fn known_id_forms(&self) -> Vec<String> {
        let mut ids: BTreeSet<String> = self.emitted.iter().map(|e| e.id.clone()).collect();
        ids.extend(self.env.log.all_ids());
        ids.iter().flat_map(|i| wire::id_forms(i)).collect()
    }

    async fn run_request(&mut self, ri: usize, h: &History) -> Result<(), Stop> {
        let req = &h.reqs[ri];
        let env = self.env;
        let scfg = self.session_cfg(req);
        self.stats.bump("requests");
        self.epoch += 1;

        // ---- which cookie does the client present?
        let (presented, src_label) = match &req.src {
            Src::Jar => (self.jar, "jar"),
            Src::NoCookie => {
                self.jar = None;
                (None, "nocookie")
            }
            Src::Old(k) => {
                let cands: Vec<usize> = (0..self.emitted.len())
                    .rev()
                    .filter(|i| {
                        Some(*i) != self.jar
                            && self.jar.map(|j| self.emitted[j].value_wire != self.emitted[*i].value_wire).unwrap_or(true)
                    })
                    .collect();
                if cands.is_empty() {
                    (self.jar, "jar")
                } else {
                    let i = cands[*k as usize % cands.len()];
                    self.jar = Some(i);
                    self.stats.bump("old_cookie_replays");
                    (Some(i), "old")
                }
            }
        };
        let cookie_in: Option<Emitted> = presented.map(|i| self.emitted[i].clone());
        self.meta.push(ReqMeta {
            had: cookie_in.as_ref().map(|c| c.id.clone()),
            end_id: None,
            cookie_parent: cookie_in.as_ref().map(|c| c.by),
            ctx: "",
            vanish: None,
        });
        let replay_of_dead: Option<&'static str> =
            cookie_in.as_ref().and_then(|c| self.dead.get(&c.id).copied());
        if let Some(why) = replay_of_dead {
            self.stats.bump(&format!("replays_of_{why}_id"));
        }
        if let Some(c) = &cookie_in {
            if self.meta.get(c.by).map(|m| m.vanish.is_some()).unwrap_or(false) {
                // the state that survived the vanished record is about to be read back
                self.stats.bump("requests_presenting_cookie_of_a_fault_request");
            }
        }
        if cookie_in.is_some() {
            self.boundaries += 1;
            self.stats.bump("boundaries_with_cookie");
        }

        let mut headers = HeaderMap::new();
        if let Some(c) = &cookie_in {
            let hv = if req.extra_cookie {
                format!("theme=dark; {}={}; lang=en", c.name_wire, c.value_wire)
            } else {
                format!("{}={}", c.name_wire, c.value_wire)
            };
            match HeaderValue::from_str(&hv) {
                Ok(v) => {
                    headers.insert(COOKIE, v);
                }
                Err(_) => {
                    return Err(Stop::Inconclusive("cookie header not representable".into(), json!(hv)));
                }
            }
        } else if req.extra_cookie {
            headers.insert(COOKIE, HeaderValue::from_static("theme=dark"));
        }
        let head = RequestHead {
            method: Method::GET,
            target: "/".parse().unwrap(),
            version: Version::HTTP_11,
            headers,
        };
        let request_cookies = match extract_request_cookies(&head, &env.processor) {
            Ok(c) => c,
            Err(e) => return Err(Stop::Inconclusive("extract_request_cookies failed".into(), json!(es(e)))),
        };
        let incoming = IncomingSession::extract(&request_cookies, &scfg.cookie);
        self.trace.push(format!(
            "R{} src={} cookie_id={} incoming={}",
            ri + 1,
            src_label,
            cookie_in.as_ref().map(|c| c.id.as_str()).unwrap_or("-"),
            incoming.is_some()
        ));
        if incoming.is_some() != cookie_in.is_some() {
            // The cookie the server itself emitted is not accepted back (or one appears from nowhere).
            if self.mode == Mode::C12 {
                self.stats.bump("c11_rule_hits_ignored_in_c12");
                return Err(Stop::Abandon);
            }
            return Err(self.violation(
                json!({"rule": "incoming_session", "cause": if cookie_in.is_some() {"own_cookie_not_accepted"} else {"session_from_nowhere"}}),
                json!({"request": ri + 1, "presented": cookie_in.as_ref().map(|c| format!("{}={}", c.name_wire, c.value_wire))}),
                h,
            ));
        }
        let mut session = Session::new(&env.store, scfg, incoming);

        let mut rm = ReqModel {
            had: cookie_in.as_ref().map(|c| c.id.clone()),
            client: cookie_in.as_ref().map(|c| c.client.clone()).unwrap_or_default(),
            client_touched: false,
            srv: if cookie_in.is_some() { Srv::NotLoaded } else { Srv::Absent },
            srv_mutated: false,
            invalidated: false,
            cycled: false,
            synced: false,
            synced_after_cycle: false,
            moved_to: None,
            persisted: cookie_in.as_ref().and_then(|c| self.store.get(&c.id).cloned()).unwrap_or_default(),
            vanished: false,
            notes: vec![],
        };
        let req_debug_start = self.debug_texts.len();

        // ---- operations
        for (oi, op) in req.ops.iter().enumerate() {
            if *op == Op::Vanish {
                // Environment fault. Only where the outcome stays pinned: a live session whose
                // server state is already loaded (record existed / state changed), no manual sync.
                let eligible = rm.had.is_some() && !rm.invalidated && !rm.synced && matches!(rm.srv, Srv::Rec(_));
                if eligible {
                    let id = rm.had.clone().unwrap();
                    if let Some(sid) = id_from(&id) {
                        let _ = env.inner.delete(&sid).await; // raw store, behind the monitor
                    }
                    rm.vanished = true;
                    rm.persisted = Kv::new();
                    self.stats.bump("vanish_performed");
                    self.trace.push(format!(
                        "  R{}.{} <<environment: the record of {} vanishes>> [server:{}]",
                        ri + 1, oi + 1, id, rm.srv_label()
                    ));
                } else {
                    self.stats.bump("vanish_skipped_not_eligible");
                }
                continue;
            }
            if *op == Op::SyncFault {
                // Environment fault + explicit sync. Only where the outcome stays pinned: an existing session whose loaded
                // server state has pending changes and nothing structural (the only store call is the failing `update`).
                let eligible = rm.had.is_some() && !rm.invalidated && !rm.synced && !rm.cycled && !rm.vanished
                    && matches!(rm.srv, Srv::Rec(_)) && rm.srv_mutated
                    && self.store.contains_key(rm.had.as_ref().unwrap());
                if !eligible {
                    self.stats.bump("sync_fault_skipped_not_eligible");
                    continue;
                }
                self.stats.bump("sync_fault_performed");
            }
            if rm.vanished && *op == Op::Sync {
                // a manual sync over a vanished record (update_ttl/update on an unknown id): unspecified
                self.stats.cbump("vanish_faults", "unjudged/manual_sync_after_vanish");
                return Err(Stop::Abandon);
            }
            self.stats.bump("ops");
            self.stats.cbump("op_kinds", op.kind());
            // model: implicit load
            let loads = matches!(
                op,
                Op::SGet { .. } | Op::SInsert { .. } | Op::SRemove { .. } | Op::SClear | Op::SIsEmpty | Op::ForceLoad
            );
            if loads && rm.srv == Srv::NotLoaded {
                let id = rm.had.clone().unwrap();
                let known = self.store.get(&id).cloned();
                let observed = self.observe(rm.moved_to.as_ref().unwrap_or(&id)).await;
                self.stats.bump("model_loads");
                match (known, observed.is_some()) {
                    (Some(kv), exists) if !kv.is_empty() => {
                        if !exists {
                            rm.notes.push("record_missing_for_nonempty_model_state".into());
                        }
                        rm.srv = Srv::Rec(kv);
                    }
                    (k, true) => rm.srv = Srv::Rec(k.unwrap_or_default()),
                    (_, false) => {
                        if env.case.state.reject {
                            rm.invalidated = true;
                            rm.srv = Srv::Deleted;
                            rm.notes.push("invalidated_by_missing_record".into());
                            self.stats.bump("invalidated_by_missing_record");
                            for side in ['s', 'c'] {
                                self.events.push(Event {
                                    req: ri,
                                    side,
                                    key: None,
                                    what: if side == 's' { "server_missing_record_rejected" } else { "client_missing_record_rejected" },
                                    state: "not_loaded",
                                    ctx: rm.ctx(),
                                    epoch: self.epoch,
                                });
                            }
                        } else {
                            rm.srv = Srv::Absent;
                            self.stats.bump("missing_record_allowed");
                        }
                    }
                }
            }
            let state_before = rm.srv_label();
            let cstate_before = rm.client_label();
            let ctx_now = rm.ctx();
            self.tok += 1;
            let tok = format!("t{}", self.tok);
            // model: expected return value and effect
            let mut ev: Option<Event> = None;
            let expected: Ret = match op {
                Op::SGet { k, .. } => Ret::Val(match &rm.srv {
                    Srv::Rec(kv) if !rm.invalidated => kv.get(SKEYS[*k as usize]).cloned(),
                    _ => None,
                }),
                Op::SInsert { k, .. } => {
                    let key = SKEYS[*k as usize].to_string();
                    if rm.invalidated || rm.srv == Srv::Deleted {
                        Ret::Val(None)
                    } else {
                        let mut kv = match std::mem::replace(&mut rm.srv, Srv::Absent) {
                            Srv::Rec(kv) => kv,
                            _ => Kv::new(),
                        };
                        let old = kv.insert(key.clone(), tok.clone());
                        rm.srv = Srv::Rec(kv);
                        rm.srv_mutated = true;
                        ev = Some(Event { req: ri, side: 's', key: Some(key), what: "server_insert", state: state_before, ctx: ctx_now, epoch: self.epoch });
                        Ret::Val(old)
                    }
                }
                Op::SRemove { k, .. } => {
                    let key = SKEYS[*k as usize];
                    match &mut rm.srv {
                        Srv::Rec(kv) if !rm.invalidated => {
                            let old = kv.remove(key);
                            if old.is_some() {
                                rm.srv_mutated = true;
                                ev = Some(Event { req: ri, side: 's', key: Some(key.into()), what: "server_remove", state: state_before, ctx: ctx_now, epoch: self.epoch });
                            }
                            Ret::Val(old)
                        }
                        _ => Ret::Val(None),
                    }
                }
                Op::SClear => {
                    if let Srv::Rec(kv) = &mut rm.srv {
                        if !rm.invalidated && !kv.is_empty() {
                            kv.clear();
                            rm.srv_mutated = true;
                            ev = Some(Event { req: ri, side: 's', key: None, what: "server_clear", state: state_before, ctx: ctx_now, epoch: self.epoch });
                        }
                    }
                    Ret::Unit
                }
                Op::SIsEmpty => Ret::Bool(match &rm.srv {
                    Srv::Rec(kv) if !rm.invalidated => kv.is_empty(),
                    _ => true,
                }),
                Op::ForceLoad => Ret::Unit,
                Op::Sync => Ret::Unit,
                // the failed sync leaves everything pending
                Op::SyncFault => Ret::Unit,
                Op::Delete => {
                    rm.srv = Srv::Deleted;
                    rm.srv_mutated = false;
                    ev = Some(Event { req: ri, side: 's', key: None, what: "delete", state: state_before, ctx: ctx_now, epoch: self.epoch });
                    Ret::Unit
                }
                Op::CycleId => {
                    rm.cycled = true;
                    self.structural.push((ri, "cycle_id"));
                    Ret::Unit
                }
                Op::Invalidate => {
                    rm.invalidated = true;
                    rm.srv = Srv::Deleted;
                    self.events.push(Event { req: ri, side: 'c', key: None, what: "invalidate", state: cstate_before, ctx: ctx_now, epoch: self.epoch });
                    ev = Some(Event { req: ri, side: 's', key: None, what: "invalidate", state: state_before, ctx: ctx_now, epoch: self.epoch });
                    Ret::Unit
                }
                Op::CGet { k, .. } => {
                    Ret::Val(if rm.invalidated { None } else { rm.client.get(CKEYS[*k as usize]).cloned() })
                }
                Op::CInsert { k, .. } => {
                    if rm.invalidated {
                        Ret::Val(None)
                    } else {
                        let key = CKEYS[*k as usize].to_string();
                        let old = rm.client.insert(key.clone(), tok.clone());
                        rm.client_touched = true;
                        ev = Some(Event { req: ri, side: 'c', key: Some(key), what: "client_insert", state: cstate_before, ctx: ctx_now, epoch: self.epoch });
                        Ret::Val(old)
                    }
                }
                Op::CRemove { k, .. } => {
                    if rm.invalidated {
                        Ret::Val(None)
                    } else {
                        let key = CKEYS[*k as usize];
                        let old = rm.client.remove(key);
                        if old.is_some() {
                            rm.client_touched = true;
                            ev = Some(Event { req: ri, side: 'c', key: Some(key.into()), what: "client_remove", state: cstate_before, ctx: ctx_now, epoch: self.epoch });
                        }
                        Ret::Val(old)
                    }
                }
                Op::CClear => {
                    if !rm.invalidated && !rm.client.is_empty() {
                        rm.client.clear();
                        rm.client_touched = true;
                        ev = Some(Event { req: ri, side: 'c', key: None, what: "client_clear", state: cstate_before, ctx: ctx_now, epoch: self.epoch });
                    }
                    Ret::Unit
                }
                Op::CIsEmpty { .. } => Ret::Bool(rm.invalidated || rm.client.is_empty()),
                Op::Vanish => Ret::Unit,
            };

            // real
            let mark = env.log.len();
            set_current(op.base(), &format!("{}/{}", rm.id_kind(), state_before), ctx_now);
            let got = exec(&mut session, op, &tok).await;
            let calls = env.log.since(mark);
            for c in &calls {
                self.stats.cbump("store_ops", c.op);
            }
            self.trace.push(format!(
                "  R{}.{} {}{} -> got {:?}, model {:?} [server:{} client:{}]{}",
                ri + 1,
                oi + 1,
                op.show(),
                if matches!(op, Op::SInsert { .. } | Op::CInsert { .. }) { format!("={tok}") } else { String::new() },
                got,
                expected,
                rm.srv_label(),
                rm.client_label(),
                if calls.is_empty() { String::new() } else { format!(" store:{}", calls_label(&calls)) },
            ));
            if self.mode == Mode::C12 {
                self.debug_texts.push((ri, format!("{session:?}")));
            }

            if let Err(e) = &got {
                if infra_error(e) {
                    return Err(Stop::Inconclusive("store infrastructure error".into(), json!(e)));
                }
            }
            match got {
                Err(e) if e.starts_with("SYNC:") => {
                    // explicit sync() failed
                    let rec_exists = match &rm.had {
                        Some(id) => self.observe(id).await.is_some(),
                        None => false,
                    };
                    let cause = format!(
                        "{}/{}/{}{}",
                        rm.id_kind(),
                        state_before,
                        if rm.had.is_some() {
                            if rec_exists { "record_exists" } else { "record_missing" }
                        } else {
                            "no_prior_record"
                        },
                        ""
                    );
                    self.stats.cbump("sync_arms", &format!("sync:{}/{} -> {} ERR", rm.id_kind(), state_before, calls_label(&calls)));
                    if self.accepted_failure(&rm, state_before, rec_exists) {
                        self.stats.cbump("accepted_failures", &cause);
                        return Err(Stop::Abandon);
                    }
                    if self.mode == Mode::C12 {
                        self.stats.bump("c11_rule_hits_ignored_in_c12");
                        return Err(Stop::Abandon);
                    }
                    let mut sig = json!({"rule": "sync_error", "cause": cause});
                    if !rm.ctx().is_empty() {
                        sig["ctx"] = json!(rm.ctx());
                    }
                    return Err(self.violation(
                        sig,
                        json!({"request": ri + 1, "op": oi + 1, "error": e, "store_calls": calls_label(&calls)}),
                        h,
                    ));
                }
                Err(e) => {
                    if self.mode == Mode::C12 {
                        self.stats.bump("c11_rule_hits_ignored_in_c12");
                        return Err(Stop::Abandon);
                    }
                    return Err(self.violation(
                        json!({"rule": "op_error", "op": op.base(), "state": state_before}),
                        json!({"request": ri + 1, "op": oi + 1, "error": e}),
                        h,
                    ));
                }
                Ok(got) => {
                    self.stats.bump("returns_compared");
                    if got != expected {
                        let (side, key): (char, Option<&str>) = match op {
                            Op::SGet { k, .. } | Op::SInsert { k, .. } | Op::SRemove { k, .. } => ('s', Some(SKEYS[*k as usize])),
                            Op::CGet { k, .. } | Op::CInsert { k, .. } | Op::CRemove { k, .. } => ('c', Some(CKEYS[*k as usize])),
                            Op::CIsEmpty { .. } | Op::CClear => ('c', None),
                            _ => ('s', None),
                        };
                        // A whole-state read (is_empty) disagrees: find out which key is responsible
                        // by comparing what the store holds with the model (diagnosis only).
                        let mut key: Option<String> = key.map(|k| k.to_string());
                        if side == 's' && key.is_none() {
                            if let Some(id) = &rm.had {
                                let observed = self.observe(rm.moved_to.as_ref().unwrap_or(id)).await.unwrap_or_default();
                                let persisted = rm.persisted.clone();
                                let model_kv = match &rm.srv {
                                    Srv::Rec(kv) => kv.clone(),
                                    _ => Kv::new(),
                                };
                                // first: what the store holds vs what the model says was persisted
                                // (a carry-over problem); then: vs the in-request model state
                                let differing: Vec<&str> =
                                    SKEYS.iter().copied().filter(|k| observed.get(*k) != persisted.get(*k)).collect();
                                // prefer a key whose last change happened in an earlier request
                                key = differing
                                    .iter()
                                    .copied()
                                    .find(|k| !self.cause(ri, 's', Some(k)).1)
                                    .or_else(|| differing.first().copied())
                                    .or_else(|| SKEYS.iter().copied().find(|k| observed.get(*k) != model_kv.get(*k)))
                                    .map(|k| k.to_string());
                            }
                        }
                        let key = key.as_deref();
                        // the event of *this* op must not count as its own cause
                        let (cause, same_req, via, ectx) = self.cause(ri, side, key);
                        let symptom = match (&got, &expected) {
                            (Ret::Val(Some(g)), Ret::Val(_)) if self.all_tokens_old.contains(g) || g.starts_with('t') => "stale_or_foreign_value",
                            (Ret::Val(None), Ret::Val(Some(_))) => "value_lost",
                            _ => "other",
                        };
                        if self.mode == Mode::C12 {
                            self.stats.bump("c11_rule_hits_ignored_in_c12");
                            return Err(Stop::Abandon);
                        }
                        let rule = if let Some(why) = replay_of_dead {
                            if why == "invalidated" { "replay_after_invalidate" } else { "replay_after_cycle_id" }
                        } else if same_req {
                            "op_return"
                        } else {
                            "next_request_state"
                        };
                        let mut sig = json!({"rule": rule, "cause": cause});
                        let ctx = if !rm.ctx().is_empty() { rm.ctx() } else { ectx };
                        if !ctx.is_empty() {
                            sig["ctx"] = json!(ctx);
                        }
                        return Err(self.violation(
                            sig,
                            json!({"request": ri + 1, "op": oi + 1, "operation": op.show(), "got": format!("{got:?}"),
                                   "model": format!("{expected:?}"), "symptom": symptom, "via": via,
                                   "model_notes": rm.notes}),
                            h,
                        ));
                    }
                }
            }
            if let Some(e) = ev {
                self.events.push(e);
            }
            // model: explicit sync bookkeeping (after the real call, it uses the monitor's log)
            if *op == Op::Sync {
                self.stats.cbump(
                    "sync_arms",
                    &format!("sync:{}/{} -> {}", rm.id_kind(), state_before, calls_label(&calls)),
                );
                self.structural.push((ri, "sync"));
                self.epoch += 1;
                if rm.cycled && rm.had.is_some() {
                    self.meta[ri].ctx = "explicit_sync_after_cycle_id";
                } else if rm.had.is_none() {
                    self.meta[ri].ctx = "explicit_sync_on_new_session";
                }
                rm.synced = true;
                if rm.cycled {
                    rm.synced_after_cycle = true;
                    for c in &calls {
                        if c.ok && c.op == "change_id" {
                            rm.moved_to = c.ids.get(1).cloned();
                        } else if c.ok && c.op == "create" {
                            rm.moved_to = c.ids.first().cloned();
                        }
                    }
                }
                rm.persisted = match &rm.srv {
                    Srv::Rec(kv) if !rm.invalidated => kv.clone(),
                    Srv::NotLoaded => rm.persisted.clone(),
                    _ => Kv::new(),
                };
                if !rm.invalidated {
                    match &rm.srv {
                        Srv::Deleted => rm.srv = Srv::Absent,
                        Srv::Rec(_) => rm.srv_mutated = false,
                        Srv::Absent => {
                            if calls.iter().any(|c| c.op == "create" && c.ok) {
                                rm.srv = Srv::Rec(Kv::new());
                                rm.srv_mutated = false;
                            }
                        }
                        Srv::NotLoaded => {}
                    }
                }
            }
        }

        // ---- is_invalidated
        let real_inval = session.is_invalidated();
        if real_inval != rm.invalidated {
            if self.mode == Mode::C12 {
                self.stats.bump("c11_rule_hits_ignored_in_c12");
                return Err(Stop::Abandon);
            }
            let (cause, _, via, ectx) = self.cause(ri, 's', None);
            let mut sig = json!({"rule": "is_invalidated", "cause": cause});
            let ctx = if !rm.ctx().is_empty() { rm.ctx() } else { ectx };
            if !ctx.is_empty() {
                sig["ctx"] = json!(ctx);
            }
            return Err(self.violation(
                sig,
                json!({"request": ri + 1, "got": real_inval, "model": rm.invalidated, "via": via}),
                h,
            ));
        }
        if self.mode == Mode::C12 {
            self.debug_texts.push((ri, format!("{session:?}")));
        }
        let must_encrypt_model = !rm.invalidated && !rm.client.is_empty();

        // ---- finalisation, exactly as the middleware chain does it
        let id_kind = rm.id_kind();
        let srv_label = rm.srv_label();
        if rm.vanished {
            let judged = rm.cycled && !rm.invalidated && !rm.synced && matches!(rm.srv, Srv::Rec(_));
            if !judged {
                // e.g. existing id + unchanged state -> update_ttl on an unknown id: unspecified
                self.stats.cbump("vanish_faults", &format!("unjudged/{id_kind}/{srv_label}"));
                return Err(Stop::Abandon);
            }
            self.stats.cbump("vanish_faults", &format!("judged/{id_kind}/{srv_label}"));
            self.meta[ri].vanish = Some(srv_label);
        }
        let abstract_state = format!("{}/{}/client_{}", id_kind, srv_label, rm.client_label());
        self.stats.cbump("abstract_states_at_finalize", &abstract_state);
        self.path.push(format!("{src_label}:{abstract_state}{}", if rm.invalidated { ":inv" } else { "" }));
        let mark = env.log.len();
        let mut response_cookies = ResponseCookies::new();
        set_current("finalize_session", &format!("{id_kind}/{srv_label}"), rm.ctx());
        let fin = finalize_session(Response::ok(), &mut response_cookies, &env.processor, session).await;
        let calls = env.log.since(mark);
        for c in &calls {
            self.stats.cbump("store_ops", c.op);
        }
        let arm = format!(
            "{}/{}{} -> {}{}",
            id_kind,
            srv_label,
            if rm.invalidated { "(invalidated)" } else { "" },
            calls_label(&calls),
            if fin.is_err() { " ERR" } else { "" }
        );
        self.stats.cbump("sync_arms", &arm);
        self.trace.push(format!(
            "  R{} finalize [{}{}] store:{} -> {}",
            ri + 1,
            abstract_state,
            if rm.invalidated { ",invalidated" } else { "" },
            calls_label(&calls),
            match &fin {
                Ok(_) => "Ok".to_string(),
                Err(e) => format!("Err({})", es(e)),
            }
        ));

        // The cookies the middleware left in `ResponseCookies` under the session name.
        let session_name = scfg.cookie.name.clone();
        let in_set: Vec<pavex::cookie::ResponseCookie<'static>> =
            response_cookies.iter().filter(|c| c.name() == session_name).cloned().collect();

        let response = match fin {
            Err(e) => {
                if infra_error(&format!("{e:?}")) {
                    return Err(Stop::Inconclusive("store infrastructure error".into(), json!(es(&e))));
                }
                let crypto_err = matches!(e, FinalizeError::EncryptionRequired { .. } | FinalizeError::CryptoRequired { .. });
                if self.mode == Mode::C12 {
                    self.stats.bump("finalize_err");
                    if crypto_err {
                        self.stats.cbump("crypto_refusals", &format!(
                            "{}:{}",
                            env.case.crypto.label(),
                            if matches!(e, FinalizeError::EncryptionRequired { .. }) { "EncryptionRequired" } else { "CryptoRequired" }
                        ));
                        // "otherwise the request fails and no session cookie is set"
                        if !in_set.is_empty() {
                            return Err(self.violation(
                                json!({"rule": "cookie_set_despite_error", "crypto": env.case.crypto.label()}),
                                json!({"request": ri + 1, "error": es(&e), "cookies": in_set.iter().map(|c| c.to_string()).collect::<Vec<_>>()}),
                                h,
                            ));
                        }
                        // the refusal must be warranted by the configuration (where the docs are definite)
                        let sufficient = match env.case.crypto.promise() {
                            Promise::Encrypted => Some(true),
                            Promise::Signed => Some(!must_encrypt_model),
                            Promise::Plain => Some(false),
                            Promise::Unspecified => None,
                        };
                        // a name that needs percent-encoding makes the promise unreliable: skip
                        let reliable = !(env.case.percent_encode && crate::cfg::name_needs_encoding(&env.case.cookie.name));
                        if sufficient == Some(true) && reliable {
                            return Err(self.violation(
                                json!({"rule": "spurious_crypto_refusal", "crypto": env.case.crypto.label()}),
                                json!({"request": ri + 1, "error": es(&e), "client_state_nonempty": must_encrypt_model}),
                                h,
                            ));
                        }
                        self.stats.bump("refusals_checked");
                        self.stats.cbump("c12_endings", &format!(
                            "{} / {} -> refused",
                            if rm.invalidated { "invalidated" } else if must_encrypt_model { "client_state_nonempty" } else { "client_state_empty" },
                            match env.case.crypto.promise() {
                                Promise::Plain => "config:plain",
                                Promise::Signed => "config:signed",
                                Promise::Encrypted => "config:encrypted",
                                Promise::Unspecified => "config:unspecified",
                            }
                        ));
                    }
                    return Err(Stop::Abandon);
                }
                // C11: a failed finalisation
                let rec_exists = match &rm.had {
                    Some(id) => self.observe(id).await.is_some(),
                    None => false,
                };
                let cause = format!(
                    "{}/{}/{}{}",
                    id_kind,
                    srv_label,
                    match &rm.had {
                        Some(_) => if rec_exists { "record_exists" } else { "record_missing" },
                        None => "no_prior_record",
                    },
                    ""
                );
                if self.accepted_failure(&rm, srv_label, rec_exists) {
                    self.stats.cbump("accepted_failures", &cause);
                    return Err(Stop::Abandon);
                }
                let cause = if rm.vanished { format!("record_vanished_before_cycle_id/{srv_label}") } else { cause };
                let mut sig = json!({"rule": "finalize_error", "cause": cause});
                if !rm.ctx().is_empty() {
                    sig["ctx"] = json!(rm.ctx());
                }
                return Err(self.violation(
                    sig,
                    json!({"request": ri + 1, "error": es(&e), "store_calls": calls_label(&calls),
                           "policy": env.case.state_label()}),
                    h,
                ));
            }
            Ok(r) => r,
        };
        self.stats.bump("finalize_ok");

        // `inject_response_cookies`: ResponseCookies -> Set-Cookie headers through the real Processor
        let plain_cookies = in_set.clone();
        let response = match inject_response_cookies(response, response_cookies, &env.processor) {
            Ok(r) => r,
            Err(e) => return Err(Stop::Inconclusive("inject_response_cookies failed".into(), json!(es(e)))),
        };
        let mut set_cookies: Vec<SetCookie> = Vec::new();
        for hv in response.headers().get_all(SET_COOKIE).iter() {
            if let Ok(s) = hv.to_str() {
                if let Some(sc) = SetCookie::parse(s) {
                    set_cookies.push(sc);
                }
            }
        }
        // session cookies on the wire: name (after the harness' own percent-decoding) == configured name
        let wire_session: Vec<SetCookie> = set_cookies
            .iter()
            .filter(|sc| {
                sc.name_wire == session_name
                    || (env.case.percent_encode && wire::pct_decode(&sc.name_wire).as_deref() == Some(session_name.as_str()))
            })
            .cloned()
            .collect();
        if wire_session.len() > 1 {
            return Err(Stop::Inconclusive("more than one session Set-Cookie".into(), json!(wire_session.iter().map(|s| s.raw.clone()).collect::<Vec<_>>())));
        }

        // ---- C12 oracle
        if self.mode == Mode::C12 {
            self.c12_check(ri, h, scfg, &rm, &plain_cookies, &wire_session, must_encrypt_model)?;
        }

        // ---- browser: apply Set-Cookie
        let mut new_cookie: Option<(String, Kv)> = None; // (id, decoded client state)
        let mut removal_seen = false;
        for sc in &wire_session {
            if sc.is_removal() {
                removal_seen = true;
                if let Some(j) = self.jar {
                    let e = &self.emitted[j];
                    if e.name_wire == sc.name_wire && e.domain == sc.attr_val("domain") && e.path == sc.attr_val("path") {
                        self.jar = None;
                    }
                }
            } else {
                // learn the id (and what the cookie really carries) by undoing the processor
                let decoded = env
                    .processor
                    .process_incoming(&sc.name_wire, &sc.value_wire)
                    .ok()
                    .map(|c| c.value().to_string())
                    .and_then(|v| serde_json::from_str::<Value>(&v).ok());
                let (id, ckv) = match decoded.as_ref().and_then(|v| v.get("0")).and_then(|v| v.as_str()) {
                    Some(id) => {
                        let mut kv = Kv::new();
                        if let Some(m) = decoded.as_ref().and_then(|v| v.get("1")).and_then(|v| v.as_object()) {
                            for (k, v) in m {
                                kv.insert(k.clone(), vs(v));
                            }
                        }
                        (id.to_string(), kv)
                    }
                    None => {
                        return Err(Stop::Inconclusive("session Set-Cookie could not be decoded by the harness".into(), json!(sc.raw)));
                    }
                };
                self.emitted.push(Emitted {
                    name_wire: sc.name_wire.clone(),
                    value_wire: sc.value_wire.clone(),
                    domain: sc.attr_val("domain"),
                    path: sc.attr_val("path"),
                    id: id.clone(),
                    client: if rm.invalidated { Kv::new() } else { rm.client.clone() },
                    by: ri,
                });
                self.jar = Some(self.emitted.len() - 1);
                new_cookie = Some((id, ckv));
                self.stats.bump("session_cookies_emitted");
            }
        }
        if removal_seen {
            self.stats.bump("removal_cookies_seen");
        }

        // retroactive Debug scan, now that the ids this request generated are known
        if self.mode == Mode::C12 {
            let forms = self.known_id_forms();
            for (r, text) in &self.debug_texts[req_debug_start..] {
                self.stats.bump("debug_texts_scanned");
                if let Some(f) = wire::contains_any(text, &forms) {
                    return Err(self.violation(
                        json!({"rule": "id_in_debug_output"}),
                        json!({"request": r + 1, "form_found": f, "debug": text}),
                        h,
                    ));
                }
            }
            self.stats.add("id_forms_searched", forms.len() as u64);
        }

        if self.mode == Mode::C12 {
            // C11-only rules below are not C12's business, but the bookkeeping is needed to go on.
        }
        let c11 = self.mode == Mode::C11;

        // ---- property clauses about invalidate()
        if rm.invalidated {
            self.stats.bump("invalidated_requests");
            if let Some(old) = &rm.had {
                let still = self.observe(old).await;
                if c11 && still.is_some() {
                    return Err(self.violation(
                        json!({"rule": "invalidate_record_not_gone"}),
                        json!({"request": ri + 1, "old_id_record": format!("{still:?}")}),
                        h,
                    ));
                }
                if c11 && (!removal_seen || self.jar.is_some()) {
                    return Err(self.violation(
                        json!({"rule": "invalidate_no_removal_cookie", "removal_seen": removal_seen}),
                        json!({"request": ri + 1, "set_cookie": wire_session.iter().map(|s| s.raw.clone()).collect::<Vec<_>>()}),
                        h,
                    ));
                }
                self.stats.bump("invalidate_clauses_checked");
                self.store.remove(old);
                self.dead.insert(old.clone(), "invalidated");
            }
            if let Some((id, _)) = &new_cookie {
                // a cookie for an invalidated session: the model says it carries nothing
                self.store.remove(id);
            }
            self.events.push(Event { req: ri, side: 's', key: None, what: "invalidate", state: srv_label, ctx: rm.ctx(), epoch: self.epoch });
            return Ok(());
        }

        // ---- not invalidated: where does the state live now?
        let target_id: Option<String> = match (&new_cookie, &rm.had) {
            (Some((id, _)), _) => Some(id.clone()),
            (None, Some(old)) if self.jar.is_some() => Some(old.clone()),
            _ => None,
        };
        if new_cookie.is_none() {
            if let (Some(j), false) = (self.jar, removal_seen) {
                // No new cookie: the browser keeps the old one, yet the property still promises the
                // state the request ended with.
                let mut e = self.emitted[j].clone();
                e.client = rm.client.clone();
                e.by = ri;
                self.emitted.push(e);
                self.jar = Some(self.emitted.len() - 1);
            }
        }
        self.meta[ri].end_id = target_id.clone();
        if let Some(t) = &target_id {
            // a dead id that a completed request carries on with is alive again (resurrected by
            // a replay under `missing_server_state = allow`)
            self.dead.remove(t);
        }
        let server_nonempty = matches!(&rm.srv, Srv::Rec(kv) if !kv.is_empty());
        if self.jar.is_none() && (!rm.client.is_empty() || server_nonempty) {
            if c11 || self.mode == Mode::C12 {
                return Err(self.violation(
                    json!({"rule": "session_cookie_missing", "state": abstract_state}),
                    json!({"request": ri + 1, "model_client": rm.client, "model_server": format!("{:?}", rm.srv),
                           "set_cookie": set_cookies.iter().map(|s| s.raw.clone()).collect::<Vec<_>>()}),
                    h,
                ));
            }
        }
        if let (Some(old), true) = (&rm.had, rm.cycled) {
            if let Some((new_id, _)) = &new_cookie {
                if c11 && new_id == old {
                    return Err(self.violation(
                        json!({"rule": "cycle_id_same_id"}),
                        json!({"request": ri + 1}),
                        h,
                    ));
                }
            }
            if new_cookie.is_some() {
                let still = self.observe(old).await;
                if c11 && still.is_some() {
                    return Err(self.violation(
                        json!({"rule": "cycle_id_old_record_not_gone", "state": format!("{id_kind}/{srv_label}")}),
                        json!({"request": ri + 1, "old_id_record": format!("{still:?}")}),
                        h,
                    ));
                }
                self.stats.bump("cycle_clauses_checked");
                self.dead.insert(old.clone(), "cycled");
            }
        }
        // model store update
        match (&rm.srv, &target_id) {
            (Srv::Rec(kv), Some(t)) => {
                if rm.cycled {
                    if let Some(old) = &rm.had {
                        self.store.remove(old);
                    }
                }
                self.store.insert(t.clone(), kv.clone());
            }
            (Srv::NotLoaded, Some(t)) => {
                if rm.cycled {
                    if let Some(old) = &rm.had {
                        if let Some(kv) = self.store.remove(old) {
                            self.store.insert(t.clone(), kv);
                        }
                    }
                }
            }
            (Srv::Absent, _) | (Srv::Deleted, _) => {
                if let Some(old) = &rm.had {
                    self.store.remove(old);
                }
                if let Some(t) = &target_id {
                    self.store.remove(t);
                }
            }
            _ => {}
        }
        if let Some(t) = &target_id {
            // bookkeeping for evidence: does a record exist now?
            let exists = self.observe(t).await.is_some();
            self.stats.cbump("record_after_finalize", &format!("{}/{} -> {}", id_kind, srv_label, if exists { "record" } else { "no_record" }));
        }
        Ok(())
    }

    /// Finalisation failures the repository itself pins as intended: renaming a session whose
    /// record is gone and was never loaded (`id_cycling_fails_if_the_old_state_record_is_gone_...`).
    fn accepted_failure(&self, rm: &ReqModel, srv_label: &str, record_exists: bool) -> bool {
        rm.had.is_some() && rm.cycled && srv_label == "not_loaded" && !rm.synced_after_cycle && !record_exists
    }

    #[allow(clippy::too_many_arguments)]
    fn c12_check(
        &mut self,
        ri: usize,
        h: &History,
        scfg: &SessionConfig,
        rm: &ReqModel,
        plain: &[pavex::cookie::ResponseCookie<'static>],
        wire_session: &[SetCookie],
        must_encrypt_model: bool,
    ) -> Result<(), Stop> {
        let env = self.env;
        let cc = &env.case.cookie;
        self.stats.bump("c12_finalize_ok_checked");
        let ending = if rm.invalidated { "invalidated" } else if must_encrypt_model { "client_state_nonempty" } else { "client_state_empty" };
        self.stats.cbump("c12_endings", &format!(
            "{} / {} -> {}",
            ending,
            match env.case.crypto.promise() {
                Promise::Plain => "config:plain",
                Promise::Signed => "config:signed",
                Promise::Encrypted => "config:encrypted",
                Promise::Unspecified => "config:unspecified",
            },
            if plain.is_empty() { "ok_no_cookie" } else if plain[0].value().is_empty() { "ok_removal_cookie" } else { "ok_session_cookie" }
        ));
        if plain.is_empty() {
            self.stats.bump("c12_no_session_cookie");
            if !wire_session.is_empty() {
                return Err(Stop::Inconclusive("session Set-Cookie without a ResponseCookies entry".into(), json!(wire_session[0].raw)));
            }
            return Ok(());
        }
        if plain.len() > 1 || wire_session.len() != 1 {
            return Err(Stop::Inconclusive("unexpected number of session cookies".into(), json!({"set": plain.len(), "wire": wire_session.len()})));
        }
        let pc = &plain[0];
        let wc = &wire_session[0];
        let is_removal = wc.is_removal() && pc.value().is_empty();
        if is_removal {
            // Not a cookie carrying a session: nothing is asked about the protection of its (empty) value. But it is
            // attached through the same middleware, which "attaches a session cookie only if the cookie processor will sign
            // or encrypt it; otherwise the request fails and no session cookie is set": with a processor that has no rule at
            // all for the name, no cookie of that name may leave, removal cookies included.
            self.stats.bump("c12_removal_cookies");
            if env.case.crypto.promise() == Promise::Plain {
                return Err(self.violation(
                    json!({"rule": "cookie_attached_without_any_protection", "cookie": "removal", "crypto": env.case.crypto.label()}),
                    json!({"request": ri + 1, "set_cookie": wc.raw}),
                    h,
                ));
            }
            // ... but it only removes the stored session cookie if it names the same
            // (name, Domain, Path): these three must be the configured ones, both on the
            // ResponseCookie the session built and on the wire. Nothing else is asserted
            // (Secure/HttpOnly/SameSite/Max-Age of a removal cookie are not promised anywhere).
            let mut bad: Vec<(&'static str, String)> = vec![];
            if pc.name() != cc.name {
                bad.push(("name", format!("name {:?} != {:?}", pc.name(), cc.name)));
            }
            let wname = if env.case.percent_encode { wire::pct_decode(&wc.name_wire).unwrap_or_default() } else { wc.name_wire.clone() };
            if wname != cc.name {
                bad.push(("name", format!("wire name {:?} != {:?}", wname, cc.name)));
            }
            if pc.domain() != cc.domain.as_deref() {
                bad.push(("domain", format!("domain {:?} != {:?}", pc.domain(), cc.domain)));
            }
            if wc.attr_val("domain") != cc.domain {
                bad.push(("domain", format!("wire Domain {:?} != {:?}", wc.attr_val("domain"), cc.domain)));
            }
            if pc.path() != cc.path.as_deref() {
                bad.push(("path", format!("path {:?} != {:?}", pc.path(), cc.path)));
            }
            if wc.attr_val("path") != cc.path {
                bad.push(("path", format!("wire Path {:?} != {:?}", wc.attr_val("path"), cc.path)));
            }
            self.stats.bump("c12_removal_cookies_scope_checked");
            self.stats.cbump(
                "c12_removal_cookie_scopes",
                &format!(
                    "domain={} path={} ({})",
                    if cc.domain.is_some() { "some" } else { "none" },
                    cc.path.as_deref().unwrap_or("none"),
                    if rm.notes.iter().any(|n| n == "invalidated_by_missing_record") { "implicit: missing record rejected" } else { "explicit invalidate()" }
                ),
            );
            if !bad.is_empty() {
                return Err(self.violation(
                    json!({"rule": "removal_cookie_attributes", "attribute": bad[0].0}),
                    json!({"request": ri + 1, "mismatches": bad.iter().map(|b| b.1.clone()).collect::<Vec<_>>(),
                           "set_cookie": wc.raw, "built": pc.to_string(),
                           "configured": {"name": cc.name, "domain": cc.domain, "path": cc.path}}),
                    h,
                ));
            }
            return Ok(());
        }
        self.stats.bump("c12_session_cookies_checked");
        let p = pc.value().to_string();
        let w = wc.value_wire.clone();
        // what does the plaintext carry?
        let pj: Option<Value> = serde_json::from_str(&p).ok();
        let id = pj.as_ref().and_then(|v| v.get("0")).and_then(|v| v.as_str()).map(|s| s.to_string());
        let carries_client = pj.as_ref().and_then(|v| v.get("1")).and_then(|v| v.as_object()).map(|m| !m.is_empty()).unwrap_or(false);
        let Some(id) = id else {
            return Err(Stop::Inconclusive("session cookie value is not the documented JSON".into(), json!(p)));
        };
        // ---- independent classification of the wire value
        let forms = wire::id_forms(&id);
        let decoded_pct = wire::pct_decode(&w);
        let b64 = wire::b64_decode(&w);
        let b64_text = b64.as_ref().map(|b| String::from_utf8_lossy(b).to_string());
        let class = if w == p || decoded_pct.as_deref() == Some(p.as_str()) {
            "plain"
        } else if b64.as_ref().map(|b| b.len() > 32 && &b[32..] == p.as_bytes()).unwrap_or(false) {
            "signed"
        } else {
            let leaks = wire::contains_any(&w, &forms).is_some()
                || decoded_pct.as_ref().map(|d| wire::contains_any(d, &forms).is_some()).unwrap_or(false)
                || b64_text.as_ref().map(|d| wire::contains_any(d, &forms).is_some()).unwrap_or(false);
            let roundtrip = env.processor.process_incoming(&wc.name_wire, &w).ok().map(|c| c.value().to_string());
            if !leaks && roundtrip.as_deref() == Some(p.as_str()) { "opaque" } else { "unknown" }
        };
        self.stats.cbump("wire_protection", &format!("{} -> {}", env.case.crypto.label(), class));
        if class == "unknown" {
            return Err(Stop::Inconclusive("could not classify the wire form of the session cookie".into(), json!({"wire": w, "plain": p})));
        }
        let needs_enc = env.case.percent_encode && crate::cfg::name_needs_encoding(&cc.name);
        let name_class = if needs_enc { "needs_percent_encoding" } else { "plain_token" };
        // a session cookie is set => signed or encrypted ...
        if class == "plain" {
            return Err(self.violation(
                if needs_enc {
                    json!({"rule": "session_cookie_unprotected", "cookie_name": name_class})
                } else {
                    json!({"rule": "session_cookie_unprotected", "crypto": env.case.crypto.label(), "cookie_name": name_class})
                },
                json!({"request": ri + 1, "crypto_rules": env.case.crypto.label(), "set_cookie": wc.raw, "plaintext": p, "client_state_nonempty": carries_client,
                       "will_encrypt": env.processor.will_encrypt(&cc.name), "will_sign": env.processor.will_sign(&cc.name)}),
                h,
            ));
        }
        // ... and encrypted when it carries client-side state
        if (carries_client || must_encrypt_model) && class != "opaque" {
            return Err(self.violation(
                if needs_enc {
                    json!({"rule": "client_state_not_encrypted", "cookie_name": name_class})
                } else {
                    json!({"rule": "client_state_not_encrypted", "crypto": env.case.crypto.label(), "cookie_name": name_class})
                },
                json!({"request": ri + 1, "set_cookie": wc.raw, "plaintext": p}),
                h,
            ));
        }
        // the configuration's promise and the wire agree (evidence; a disagreement that matters is
        // already a violation above)
        let promise = env.case.crypto.promise();
        let agrees = match promise {
            Promise::Plain => class == "plain",
            Promise::Signed => class == "signed",
            Promise::Encrypted => class == "opaque",
            Promise::Unspecified => true,
        };
        if !agrees {
            self.stats.cbump("promise_vs_wire_disagreements", &format!("{}:{}", env.case.crypto.label(), class));
        }
        if carries_client != must_encrypt_model {
            // the cookie does not carry what the model says the client state is: C11's business
            self.stats.bump("c11_rule_hits_ignored_in_c12");
        }

        // ---- attributes: the ResponseCookie the middleware built ...
        let mut bad: Vec<String> = vec![];
        if pc.name() != cc.name {
            bad.push(format!("name {:?} != {:?}", pc.name(), cc.name));
        }
        if pc.domain() != cc.domain.as_deref() {
            bad.push(format!("domain {:?} != {:?}", pc.domain(), cc.domain));
        }
        if pc.path() != cc.path.as_deref() {
            bad.push(format!("path {:?} != {:?}", pc.path(), cc.path));
        }
        let ss = pc.same_site().map(|s| s.to_string().to_ascii_lowercase());
        let want_ss = match cc.same_site {
            0 => None,
            1 => Some("strict".to_string()),
            2 => Some("lax".to_string()),
            _ => Some("none".to_string()),
        };
        if ss != want_ss {
            bad.push(format!("same_site {ss:?} != {want_ss:?}"));
        }
        if pc.secure().unwrap_or(false) != cc.secure {
            bad.push(format!("secure {:?} != {}", pc.secure(), cc.secure));
        }
        if pc.http_only().unwrap_or(false) != cc.http_only {
            bad.push(format!("http_only {:?} != {}", pc.http_only(), cc.http_only));
        }
        let ttl_secs = scfg.state.ttl.as_secs() as i64;
        let ma = pc.max_age().map(|d| d.as_secs());
        if cc.persistent {
            if ma != Some(ttl_secs) {
                bad.push(format!("max_age {ma:?} != ttl {ttl_secs}"));
            }
        } else {
            if ma.is_some() {
                bad.push(format!("max_age {ma:?} on a session-kind cookie"));
            }
            if pc.expires().is_some() {
                bad.push("expires set on a session-kind cookie".to_string());
            }
        }
        // ... and what actually goes over the wire
        let wname = if env.case.percent_encode { wire::pct_decode(&wc.name_wire).unwrap_or_default() } else { wc.name_wire.clone() };
        if wname != cc.name {
            bad.push(format!("wire name {:?} != {:?}", wname, cc.name));
        }
        if wc.attr_val("domain") != cc.domain {
            bad.push(format!("wire Domain {:?} != {:?}", wc.attr_val("domain"), cc.domain));
        }
        if wc.attr_val("path") != cc.path {
            bad.push(format!("wire Path {:?} != {:?}", wc.attr_val("path"), cc.path));
        }
        if wc.attr_val("samesite").map(|s| s.to_ascii_lowercase()) != want_ss {
            bad.push(format!("wire SameSite {:?} != {:?}", wc.attr_val("samesite"), want_ss));
        }
        if wc.has("httponly") != cc.http_only {
            bad.push(format!("wire HttpOnly {} != {}", wc.has("httponly"), cc.http_only));
        }
        if cc.secure && !wc.has("secure") {
            bad.push("wire Secure missing".to_string());
        }
        if !cc.secure && cc.same_site != 3 && wc.has("secure") {
            bad.push("wire Secure present but not configured".to_string());
        }
        let wma = wc.attr_val("max-age").and_then(|s| s.parse::<i64>().ok());
        if cc.persistent && wma != Some(ttl_secs) {
            bad.push(format!("wire Max-Age {wma:?} != ttl {ttl_secs}"));
        }
        if !cc.persistent && (wc.has("max-age") || wc.has("expires")) {
            bad.push("wire Max-Age/Expires on a session-kind cookie".to_string());
        }
        self.stats.bump("c12_attribute_sets_checked");
        if !bad.is_empty() {
            let first = bad[0].split(' ').next().unwrap_or("?").to_string();
            return Err(self.violation(
                json!({"rule": "cookie_attributes", "attribute": first}),
                json!({"request": ri + 1, "mismatches": bad, "set_cookie": wc.raw, "built": pc.to_string()}),
                h,
            ));
        }
        let _ = rm;
        Ok(())
    }
}

/// A version-4-looking UUID derived from a seed (the format session ids have on the wire).
fn uuid_like(seed: u64) -> String {
    let mut x = seed;
    let mut next = || {
        x = x.wrapping_add(0x9E37_79B9_7F4A_7C15);
        let mut z = x;
        z = (z ^ (z >> 30)).wrapping_mul(0xBF58_476D_1CE4_E5B9);
        z = (z ^ (z >> 27)).wrapping_mul(0x94D0_49BB_1331_11EB);
        z ^ (z >> 31)
    };
    let (a, b) = (next(), next());
    format!("{:08x}-{:04x}-4{:03x}-8{:03x}-{:012x}", (a >> 32) as u32, (a >> 16) as u16, a & 0xfff, (b >> 48) & 0xfff, b & 0xffff_ffff_ffff)
}

pub async fn run_history(env: &Env, h: &History, mode: Mode) -> Outcome {
    let mut r = Runner {
        env,
        mode,
        store: BTreeMap::new(),
        emitted: vec![],
        jar: None,
        dead: BTreeMap::new(),
        events: vec![],
        structural: vec![],
        stats: Stats::default(),
        trace: vec![],
        tok: 0,
        path: vec![],
        boundaries: 0,
        debug_texts: vec![],
        all_tokens_old: BTreeSet::new(),
        meta: vec![],
        epoch: 0,
    };
    env.log.clear();
    if mode == Mode::C12 {
        let c = &env.case.cookie;
        for kv in [
            format!("name={}", c.name),
            format!("domain={:?}", c.domain),
            format!("path={:?}", c.path),
            format!("same_site={}", ["unset", "strict", "lax", "none"][c.same_site as usize]),
            format!("secure={}", c.secure),
            format!("http_only={}", c.http_only),
            format!("kind={}", if c.persistent { "persistent" } else { "session" }),
            format!("percent_encode={}", env.case.percent_encode),
            format!("ttl={}s", env.case.ttl_short),
            format!("crypto={}", env.case.crypto.label()),
        ] {
            r.stats.cbump("c12_config_values", &kv);
        }
    }
    // (C12 only: the state-carry-over model of C11 speaks about sessions that the histories themselves created)
    if let (Mode::C12, Some(kv)) = (mode, &h.forged) {
        // the client's first cookie was not issued in this history: the harness writes the wire value the way the session
        // layer does ({"0": id, "1": client state}) and lets the *real* processor of this configuration protect it - a plain
        // cookie anyone can make when no rule covers the name, a signed one from a deployment that only signed, ...
        let id = uuid_like(0x5eed_f06e_d000_u64 ^ ((env.case.label().len() as u64) << 20) ^ (h.reqs.len() as u64 + 1));
        let client: Kv = kv.iter().cloned().collect();
        let value = json!({"0": id, "1": client}).to_string();
        let mut rc = ResponseCookies::new();
        rc.insert(pavex::cookie::ResponseCookie::new(env.case.cookie.name.clone(), value));
        if let Ok(resp) = inject_response_cookies(Response::ok(), rc, &env.processor) {
            if let Some(sc) = resp.headers().get(SET_COOKIE).and_then(|v| v.to_str().ok()).and_then(SetCookie::parse) {
                r.emitted.push(Emitted { name_wire: sc.name_wire.clone(), value_wire: sc.value_wire.clone(), domain: None, path: None,
                                         id, client, by: usize::MAX });
                r.jar = Some(0);
                r.stats.bump("histories_starting_with_a_cookie_not_issued_by_them");
            }
        }
    }
    let mut violation = None;
    let mut inconclusive = None;
    for ri in 0..h.reqs.len() {
        match r.run_request(ri, h).await {
            Ok(()) => {}
            Err(Stop::Violation(v)) => {
                violation = Some(v);
                break;
            }
            Err(Stop::Inconclusive(w, d)) => {
                inconclusive = Some((w, json!({"config": env.case.label(), "history": h.show(), "detail": d})));
                break;
            }
            Err(Stop::Abandon) => {
                r.stats.bump("histories_abandoned");
                break;
            }
        }
    }
    r.stats.bump("histories");
    if r.stats.n.get("vanish_performed").copied().unwrap_or(0) > 0 {
        r.stats.bump("fault_histories");
        if r.meta.iter().any(|m| m.vanish.is_some()) {
            r.stats.bump("fault_histories_judged");
        }
    }
    let nontrivial = match mode {
        Mode::C11 => r.boundaries >= 1,
        Mode::C12 => r.stats.n.get("c12_session_cookies_checked").copied().unwrap_or(0) >= 1
            || r.stats.n.get("refusals_checked").copied().unwrap_or(0) >= 1,
    };
    Outcome {
        violation,
        inconclusive,
        stats: r.stats,
        path: r.path.join(">"),
        nontrivial,
        trace: r.trace,
    }
}
