//! Histories: what the simulated client and the simulated request handlers do.
use crate::rng::Rng;
use serde_json::{Value, json};

pub const SKEYS: [&str; 3] = ["a", "b", "c"];
pub const CKEYS: [&str; 3] = ["a", "x", "y"];

#[derive(Clone, Debug, PartialEq)]
pub enum Op {
    SGet { k: u8, typed: bool },
    SInsert { k: u8, typed: bool },
    SRemove { k: u8, typed: bool },
    SClear,
    SIsEmpty,
    ForceLoad,
    Sync,
    Delete,
    CycleId,
    Invalidate,
    CGet { k: u8, typed: bool, via_mut: bool },
    CInsert { k: u8, typed: bool },
    CRemove { k: u8, typed: bool },
    CClear,
    CIsEmpty { via_mut: bool },
    /// Environment fault, not a session operation: the store record of the id the request came
    /// with vanishes now (TTL expiry / a concurrent delete), behind the session's back.
    Vanish,
    /// Environment fault + `sync()`: the next `update` of the store fails once (a transient error); the call must fail and
    /// leave the pending changes pending.
    SyncFault,
}

impl Op {
    pub fn kind(&self) -> &'static str {
        match self {
            Op::SGet { typed: true, .. } => "server.get",
            Op::SGet { .. } => "server.get_raw",
            Op::SInsert { typed: true, .. } => "server.insert",
            Op::SInsert { .. } => "server.insert_raw",
            Op::SRemove { typed: true, .. } => "server.remove",
            Op::SRemove { .. } => "server.remove_raw",
            Op::SClear => "server.clear",
            Op::SIsEmpty => "server.is_empty",
            Op::ForceLoad => "force_load",
            Op::Sync => "sync",
            Op::Delete => "delete",
            Op::CycleId => "cycle_id",
            Op::Invalidate => "invalidate",
            Op::CGet { typed: true, .. } => "client.get",
            Op::CGet { .. } => "client.get_raw",
            Op::CInsert { typed: true, .. } => "client.insert",
            Op::CInsert { .. } => "client.insert_raw",
            Op::CRemove { typed: true, .. } => "client.remove",
            Op::CRemove { .. } => "client.remove_raw",
            Op::CClear => "client.clear",
            Op::CIsEmpty { .. } => "client.is_empty",
            Op::Vanish => "env.record_vanishes",
            Op::SyncFault => "env.store_update_fails_once+sync",
        }
    }
    /// Short name without the API flavour, used in signatures.
    pub fn base(&self) -> &'static str {
        match self {
            Op::SGet { .. } => "server_get",
            Op::SInsert { .. } => "server_insert",
            Op::SRemove { .. } => "server_remove",
            Op::SClear => "server_clear",
            Op::SIsEmpty => "server_is_empty",
            Op::ForceLoad => "force_load",
            Op::Sync => "sync",
            Op::Delete => "delete",
            Op::CycleId => "cycle_id",
            Op::Invalidate => "invalidate",
            Op::CGet { .. } => "client_get",
            Op::CInsert { .. } => "client_insert",
            Op::CRemove { .. } => "client_remove",
            Op::CClear => "client_clear",
            Op::CIsEmpty { .. } => "client_is_empty",
            Op::Vanish => "record_vanishes",
            Op::SyncFault => "sync_with_store_fault",
        }
    }
    pub fn show(&self) -> String {
        match self {
            Op::SGet { k, .. } | Op::SInsert { k, .. } | Op::SRemove { k, .. } => {
                format!("{}({})", self.kind(), SKEYS[*k as usize])
            }
            Op::CGet { k, .. } | Op::CInsert { k, .. } | Op::CRemove { k, .. } => {
                format!("{}({})", self.kind(), CKEYS[*k as usize])
            }
            _ => format!("{}()", self.kind()),
        }
    }
    pub fn to_json(&self) -> Value {
        match self {
            Op::SGet { k, typed } => json!(["sget", k, typed]),
            Op::SInsert { k, typed } => json!(["sins", k, typed]),
            Op::SRemove { k, typed } => json!(["srem", k, typed]),
            Op::SClear => json!(["sclear"]),
            Op::SIsEmpty => json!(["sempty"]),
            Op::ForceLoad => json!(["load"]),
            Op::Sync => json!(["sync"]),
            Op::Delete => json!(["delete"]),
            Op::CycleId => json!(["cycle"]),
            Op::Invalidate => json!(["invalidate"]),
            Op::CGet { k, typed, via_mut } => json!(["cget", k, typed, via_mut]),
            Op::CInsert { k, typed } => json!(["cins", k, typed]),
            Op::CRemove { k, typed } => json!(["crem", k, typed]),
            Op::CClear => json!(["cclear"]),
            Op::CIsEmpty { via_mut } => json!(["cempty", via_mut]),
            Op::Vanish => json!(["vanish"]),
            Op::SyncFault => json!(["sync_fault"]),
        }
    }
    pub fn from_json(v: &Value) -> Option<Op> {
        let a = v.as_array()?;
        let tag = a.first()?.as_str()?;
        let k = || a.get(1).and_then(|x| x.as_u64()).map(|x| (x % 3) as u8);
        let b = |i: usize| a.get(i).and_then(|x| x.as_bool()).unwrap_or(false);
        Some(match tag {
            "sget" => Op::SGet { k: k()?, typed: b(2) },
            "sins" => Op::SInsert { k: k()?, typed: b(2) },
            "srem" => Op::SRemove { k: k()?, typed: b(2) },
            "sclear" => Op::SClear,
            "sempty" => Op::SIsEmpty,
            "load" => Op::ForceLoad,
            "sync" => Op::Sync,
            "delete" => Op::Delete,
            "cycle" => Op::CycleId,
            "invalidate" => Op::Invalidate,
            "cget" => Op::CGet { k: k()?, typed: b(2), via_mut: b(3) },
            "cins" => Op::CInsert { k: k()?, typed: b(2) },
            "crem" => Op::CRemove { k: k()?, typed: b(2) },
            "cclear" => Op::CClear,
            "cempty" => Op::CIsEmpty { via_mut: b(1) },
            "vanish" => Op::Vanish,
            "sync_fault" => Op::SyncFault,
            _ => return None,
        })
    }
}

#[derive(Clone, Debug, PartialEq)]
pub enum Src {
    /// Whatever the browser currently holds.
    Jar,
    /// The k-th most recent cookie the server ever emitted in this history that is *not* the one
    /// in the jar (a replayed / restored cookie). Falls back to the jar if there is none.
    Old(u8),
    /// The client lost its cookies.
    NoCookie,
}

#[derive(Clone, Debug, PartialEq)]
pub struct Req {
    pub src: Src,
    /// Which of the two TTL settings the application runs with during this request.
    pub long_ttl: bool,
    /// Send an unrelated cookie next to the session cookie.
    pub extra_cookie: bool,
    pub ops: Vec<Op>,
}

impl Req {
    pub fn show(&self) -> String {
        let s = match &self.src {
            Src::Jar => "jar".to_string(),
            Src::Old(k) => format!("old{k}"),
            Src::NoCookie => "nocookie".to_string(),
        };
        format!(
            "[{}{}] {}",
            s,
            if self.long_ttl { ",ttl=long" } else { "" },
            self.ops.iter().map(|o| o.show()).collect::<Vec<_>>().join("; ")
        )
    }
    pub fn to_json(&self) -> Value {
        let s = match &self.src {
            Src::Jar => json!("jar"),
            Src::Old(k) => json!({"old": k}),
            Src::NoCookie => json!("nocookie"),
        };
        json!({"src": s, "long_ttl": self.long_ttl, "extra": self.extra_cookie,
               "ops": self.ops.iter().map(|o| o.to_json()).collect::<Vec<_>>()})
    }
    pub fn from_json(v: &Value) -> Option<Req> {
        let src = match v.get("src")? {
            Value::String(s) if s == "jar" => Src::Jar,
            Value::String(s) if s == "nocookie" => Src::NoCookie,
            o => Src::Old(o.get("old")?.as_u64()? as u8),
        };
        Some(Req {
            src,
            long_ttl: v.get("long_ttl").and_then(|x| x.as_bool()).unwrap_or(false),
            extra_cookie: v.get("extra").and_then(|x| x.as_bool()).unwrap_or(false),
            ops: v.get("ops")?.as_array()?.iter().filter_map(Op::from_json).collect(),
        })
    }
}

#[derive(Clone, Debug, PartialEq)]
pub struct History {
    pub reqs: Vec<Req>,
    /// The client starts with a session cookie that this history did not issue: made by the client itself (nothing
    /// stops it when the processor has no rule for the cookie) or issued by an earlier deployment that only signed.
    /// The pair is the client-side state it carries; the id is fresh and has no server record.
    pub forged: Option<Vec<(String, String)>>,
}

impl History {
    pub fn show(&self) -> String {
        let pre = match &self.forged {
            Some(kv) => format!("FORGED-COOKIE{kv:?} | "),
            None => String::new(),
        };
        pre + &self
            .reqs
            .iter()
            .enumerate()
            .map(|(i, r)| format!("R{}{}", i + 1, r.show()))
            .collect::<Vec<_>>()
            .join(" | ")
    }
    pub fn to_json(&self) -> Value {
        let reqs = Value::Array(self.reqs.iter().map(|r| r.to_json()).collect());
        match &self.forged {
            None => reqs,
            Some(kv) => serde_json::json!({"reqs": reqs, "forged": kv}),
        }
    }
    pub fn from_json(v: &Value) -> Option<History> {
        if let Some(o) = v.as_object() {
            let forged = o.get("forged").and_then(|f| serde_json::from_value::<Vec<(String, String)>>(f.clone()).ok());
            return Some(History { reqs: o.get("reqs")?.as_array()?.iter().filter_map(Req::from_json).collect(), forged });
        }
        Some(History { reqs: v.as_array()?.iter().filter_map(Req::from_json).collect(), forged: None })
    }
    pub fn n_ops(&self) -> usize {
        self.reqs.iter().map(|r| r.ops.len()).sum()
    }
}

pub fn probe_ops(rng: &mut Rng) -> Vec<Op> {
    let mut v = Vec::new();
    for k in 0..3u8 {
        v.push(Op::CGet { k, typed: rng.chance(1, 2), via_mut: rng.chance(1, 2) });
    }
    v.push(Op::CIsEmpty { via_mut: false });
    for k in 0..3u8 {
        v.push(Op::SGet { k, typed: rng.chance(1, 2) });
    }
    v.push(Op::SIsEmpty);
    v
}

fn gen_op(rng: &mut Rng, profile: u8) -> Op {
    // weights (out of 100); `profile` shifts the mix so that rarer corners get visited.
    let k = rng.below(3) as u8;
    let typed = rng.chance(1, 2);
    let w = rng.below(100);
    match profile {
        // server-heavy
        1 => match w {
            0..=21 => Op::SInsert { k, typed },
            22..=39 => Op::SRemove { k, typed },
            40..=54 => Op::SGet { k, typed },
            55..=60 => Op::SClear,
            61..=64 => Op::SIsEmpty,
            65..=70 => Op::ForceLoad,
            71..=78 => Op::Sync,
            79..=84 => Op::Delete,
            85..=91 => Op::CycleId,
            92..=93 => Op::Invalidate,
            94..=96 => Op::CInsert { k, typed },
            _ => Op::CRemove { k, typed },
        },
        // client-heavy
        2 => match w {
            0..=24 => Op::CInsert { k, typed },
            25..=42 => Op::CRemove { k, typed },
            43..=57 => Op::CGet { k, typed, via_mut: rng.chance(1, 2) },
            58..=64 => Op::CClear,
            65..=69 => Op::CIsEmpty { via_mut: rng.chance(1, 2) },
            70..=77 => Op::SInsert { k, typed },
            78..=82 => Op::SGet { k, typed },
            83..=86 => Op::CycleId,
            87..=89 => Op::Delete,
            90..=92 => Op::Sync,
            93..=94 => Op::Invalidate,
            95..=97 => Op::ForceLoad,
            _ => Op::SRemove { k, typed },
        },
        _ => match w {
            0..=13 => Op::SInsert { k, typed },
            14..=23 => Op::SGet { k, typed },
            24..=33 => Op::SRemove { k, typed },
            34..=37 => Op::SClear,
            38..=40 => Op::SIsEmpty,
            41..=44 => Op::ForceLoad,
            45..=49 => Op::Sync,
            50..=53 => Op::Delete,
            54..=58 => Op::CycleId,
            59..=60 => Op::Invalidate,
            61..=72 => Op::CInsert { k, typed },
            73..=80 => Op::CGet { k, typed, via_mut: rng.chance(1, 2) },
            81..=89 => Op::CRemove { k, typed },
            90..=93 => Op::CClear,
            _ => Op::CIsEmpty { via_mut: rng.chance(1, 2) },
        },
    }
}

/// 1-6 requests x 0-8 operations, plus a final observing request that reads everything back.
pub fn gen_history(rng: &mut Rng, max_reqs: u64, client_ops: bool, faults: bool) -> History {
    let n = 1 + rng.below(max_reqs);
    let profile = rng.below(4) as u8; // 0,3 = balanced
    let mut reqs = Vec::new();
    for i in 0..n {
        let src = if i == 0 {
            Src::Jar
        } else {
            match rng.below(100) {
                0..=81 => Src::Jar,
                82..=95 => Src::Old(rng.below(3) as u8),
                _ => Src::NoCookie,
            }
        };
        let is_probe = i > 0 && rng.chance(1, 5);
        let ops = if is_probe {
            probe_ops(rng)
        } else {
            let m = rng.below(9);
            let mut v = Vec::new();
            for _ in 0..m {
                let mut op = gen_op(rng, profile);
                if !client_ops {
                    // C12 wants histories whose client side stays empty, too.
                    op = match op {
                        Op::CInsert { k, typed } => Op::SInsert { k, typed },
                        o => o,
                    };
                }
                v.push(op);
            }
            v
        };
        reqs.push(Req { src, long_ttl: rng.chance(1, 3), extra_cookie: rng.chance(1, 4), ops });
    }
    if faults && n >= 2 && rng.chance(1, 5) {
        // Environment fault: in one request (not the first) the record of the current id vanishes
        // *after* the server state has been loaded, and the request also cycles the id - the one
        // situation in which the outcome is still pinned (the state must move to the new id).
        if !reqs[0].ops.iter().any(|o| matches!(o, Op::SInsert { .. })) {
            let k = rng.below(3) as u8;
            reqs[0].ops.push(Op::SInsert { k, typed: rng.chance(1, 2) });
        }
        reqs[0].ops.retain(|o| !matches!(o, Op::Delete | Op::Invalidate | Op::SClear));
        let i = 1 + rng.below(n - 1) as usize;
        for r in reqs.iter_mut().take(i) {
            // ... and make it likely that the session is alive and has a record when the fault hits
            r.ops.retain(|o| !matches!(o, Op::Delete | Op::Invalidate | Op::Sync));
        }
        for r in reqs.iter_mut().take(i).skip(1) {
            r.src = Src::Jar;
        }
        let r = &mut reqs[i];
        r.src = Src::Jar;
        // keep the request judgeable: no manual sync / delete / invalidate next to the fault
        r.ops.retain(|o| !matches!(o, Op::Sync | Op::Delete | Op::Invalidate | Op::CycleId));
        r.ops.truncate(6);
        let k = rng.below(3) as u8;
        let typed = rng.chance(1, 2);
        let loader = match rng.below(4) {
            0 => Op::ForceLoad,
            1 => Op::SGet { k, typed },
            2 => Op::SIsEmpty,
            _ => Op::SInsert { k, typed },
        };
        let p1 = rng.below(r.ops.len() as u64 + 1) as usize;
        r.ops.insert(p1, loader);
        let p2 = p1 + 1 + rng.below((r.ops.len() - p1) as u64) as usize;
        r.ops.insert(p2, Op::Vanish);
        // cycle_id() anywhere after the load: before or after the record vanishes
        let p3 = p1 + 1 + rng.below((r.ops.len() - p1) as u64) as usize;
        r.ops.insert(p3, Op::CycleId);
    }
    // ... or a store whose next `update` fails once, met by an explicit sync() of pending changes; the handler carries on and
    // the middleware finalises as usual
    if faults && rng.chance(1, 6) {
        let ri = rng.below(reqs.len() as u64) as usize;
        let r = &mut reqs[ri];
        let k = rng.below(3) as u8;
        let p1 = rng.below(r.ops.len() as u64 + 1) as usize;
        r.ops.insert(p1, Op::SInsert { k, typed: rng.chance(1, 2) });
        let p2 = p1 + 1 + rng.below((r.ops.len() - p1) as u64) as usize;
        r.ops.insert(p2, Op::SyncFault);
    }
    // After the workload: sometimes replay the previous cookie (is the old id really dead?) ...
    if rng.chance(1, 3) {
        reqs.push(Req { src: Src::Old(0), long_ttl: false, extra_cookie: false, ops: probe_ops(rng) });
        reqs.push(Req { src: Src::Old(0), long_ttl: false, extra_cookie: false, ops: probe_ops(rng) });
    }
    // ... and always finish by reading everything back with whatever the browser holds.
    reqs.push(Req { src: Src::Jar, long_ttl: rng.chance(1, 2), extra_cookie: false, ops: probe_ops(rng) });
    // one history in nine starts with a cookie it did not issue (drawn last, so that the other histories are what they were)
    let forged = if rng.chance(1, 9) {
        Some(match rng.below(3) {
            0 => vec![],
            1 => vec![(CKEYS[rng.below(3) as usize].to_string(), "forged-1".to_string())],
            _ => vec![(CKEYS[0].to_string(), "forged-a".to_string()), (CKEYS[2].to_string(), "forged-y".to_string())],
        })
    } else {
        None
    };
    History { reqs, forged }
}
