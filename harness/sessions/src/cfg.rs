//! Configuration space (session state policies, cookie attributes, cookie-processor crypto rules)
//! and the per-case environment built from it.
use crate::monitor::{MonLog, Monitor};
use crate::rng::Rng;
use pavex::cookie::config::{CryptoAlgorithm, CryptoRule, FallbackConfig};
use pavex::cookie::{Key, Processor, ProcessorConfig, SameSite};
use pavex_session::config::{
    MissingServerState, ServerStateCreation, SessionCookieKind, TtlExtensionThreshold, TtlExtensionTrigger,
};
use pavex_session::store::SessionStorageBackend;
use pavex_session::{SessionConfig, SessionStore};
use pavex_session_memory_store::InMemorySessionStore;
use serde_json::{Value, json};
use std::sync::Arc;
use std::time::Duration;

#[derive(Clone, Debug, PartialEq)]
pub struct StateSpec {
    pub never_skip: bool,
    pub reject: bool,
    pub loads_and_changes: bool,
    /// 0 = no threshold, 1 = 0.0, 2 = 0.5, 3 = 1.0
    pub threshold: u8,
}

#[derive(Clone, Debug, PartialEq)]
pub struct CookieSpec {
    pub name: String,
    pub domain: Option<String>,
    pub path: Option<String>,
    /// 0 = attribute not set, 1 = Strict, 2 = Lax, 3 = None
    pub same_site: u8,
    pub secure: bool,
    pub http_only: bool,
    pub persistent: bool,
}

#[derive(Clone, Copy, Debug, PartialEq)]
pub enum Crypto {
    NoRules,
    Sign,
    Encrypt,
    OtherNameOnly,
    SignWithEncryptFallback,
    EncryptWithSignFallback,
    MultiNameEncrypt,
    MultiNameSign,
    DupSignThenEncrypt,
    DupEncryptThenSign,
    /// A rule keyed on the percent-encoded spelling of the session cookie name.
    EncodedNameEncrypt,
}

pub const ALL_CRYPTO: [Crypto; 11] = [
    Crypto::NoRules,
    Crypto::Sign,
    Crypto::Encrypt,
    Crypto::OtherNameOnly,
    Crypto::SignWithEncryptFallback,
    Crypto::EncryptWithSignFallback,
    Crypto::MultiNameEncrypt,
    Crypto::MultiNameSign,
    Crypto::DupSignThenEncrypt,
    Crypto::DupEncryptThenSign,
    Crypto::EncodedNameEncrypt,
];

/// What the configuration promises for the session cookie, going only by the documentation of
/// `ProcessorConfig`/`CryptoRule` (primary algorithm protects outgoing cookies, fallbacks never do).
#[derive(Clone, Copy, Debug, PartialEq)]
pub enum Promise {
    Plain,
    Signed,
    Encrypted,
    /// The documentation does not say (e.g. two rules naming the same cookie).
    Unspecified,
}

impl Crypto {
    pub fn label(&self) -> &'static str {
        match self {
            Crypto::NoRules => "no_rules",
            Crypto::Sign => "sign",
            Crypto::Encrypt => "encrypt",
            Crypto::OtherNameOnly => "other_name_only",
            Crypto::SignWithEncryptFallback => "sign+fallback_encrypt",
            Crypto::EncryptWithSignFallback => "encrypt+fallback_sign",
            Crypto::MultiNameEncrypt => "multi_name_encrypt",
            Crypto::MultiNameSign => "multi_name_sign",
            Crypto::DupSignThenEncrypt => "dup_sign_then_encrypt",
            Crypto::DupEncryptThenSign => "dup_encrypt_then_sign",
            Crypto::EncodedNameEncrypt => "rule_on_encoded_name",
        }
    }
    pub fn from_label(s: &str) -> Option<Crypto> {
        ALL_CRYPTO.iter().copied().find(|c| c.label() == s)
    }
    pub fn promise(&self) -> Promise {
        match self {
            Crypto::NoRules | Crypto::OtherNameOnly => Promise::Plain,
            Crypto::Sign | Crypto::SignWithEncryptFallback | Crypto::MultiNameSign => Promise::Signed,
            Crypto::Encrypt | Crypto::EncryptWithSignFallback | Crypto::MultiNameEncrypt => Promise::Encrypted,
            Crypto::DupSignThenEncrypt | Crypto::DupEncryptThenSign | Crypto::EncodedNameEncrypt => {
                Promise::Unspecified
            }
        }
    }
}

#[derive(Clone, Debug, PartialEq)]
pub struct CaseCfg {
    pub state: StateSpec,
    pub cookie: CookieSpec,
    pub crypto: Crypto,
    pub percent_encode: bool,
    pub ttl_short: u64,
    pub ttl_long: u64,
}

impl CaseCfg {
    pub fn label(&self) -> String {
        let s = &self.state;
        let c = &self.cookie;
        format!(
            "{}/{}/{}/thr={}/{} crypto={} pe={} cookie[{} dom={:?} path={:?} ss={} sec={} ho={}] ttl={}|{}",
            if s.never_skip { "never_skip" } else { "skip_if_empty" },
            if s.reject { "reject" } else { "allow" },
            if s.loads_and_changes { "loads+changes" } else { "changes" },
            ["none", "0.0", "0.5", "1.0"][s.threshold as usize],
            if c.persistent { "persistent" } else { "session" },
            self.crypto.label(),
            self.percent_encode,
            c.name,
            c.domain,
            c.path,
            ["unset", "strict", "lax", "none"][c.same_site as usize],
            c.secure,
            c.http_only,
            self.ttl_short,
            self.ttl_long
        )
    }
    pub fn state_label(&self) -> String {
        let s = &self.state;
        format!(
            "{}/{}/{}/thr={}/{}",
            if s.never_skip { "never_skip" } else { "skip_if_empty" },
            if s.reject { "reject" } else { "allow" },
            if s.loads_and_changes { "loads+changes" } else { "changes" },
            ["none", "0.0", "0.5", "1.0"][s.threshold as usize],
            if self.cookie.persistent { "persistent" } else { "session" },
        )
    }
    pub fn to_json(&self) -> Value {
        json!({
            "never_skip": self.state.never_skip, "reject": self.state.reject,
            "loads_and_changes": self.state.loads_and_changes, "threshold": self.state.threshold,
            "name": self.cookie.name, "domain": self.cookie.domain, "path": self.cookie.path,
            "same_site": self.cookie.same_site, "secure": self.cookie.secure, "http_only": self.cookie.http_only,
            "persistent": self.cookie.persistent, "crypto": self.crypto.label(), "percent_encode": self.percent_encode,
            "ttl_short": self.ttl_short, "ttl_long": self.ttl_long,
        })
    }
    pub fn from_json(v: &Value) -> Option<CaseCfg> {
        let b = |k: &str| v.get(k).and_then(|x| x.as_bool());
        let s = |k: &str| v.get(k).and_then(|x| x.as_str()).map(|x| x.to_string());
        Some(CaseCfg {
            state: StateSpec {
                never_skip: b("never_skip")?,
                reject: b("reject")?,
                loads_and_changes: b("loads_and_changes")?,
                threshold: v.get("threshold")?.as_u64()? as u8 % 4,
            },
            cookie: CookieSpec {
                name: s("name")?,
                domain: s("domain"),
                path: s("path"),
                same_site: v.get("same_site")?.as_u64()? as u8 % 4,
                secure: b("secure")?,
                http_only: b("http_only")?,
                persistent: b("persistent")?,
            },
            crypto: Crypto::from_label(v.get("crypto")?.as_str()?)?,
            percent_encode: b("percent_encode")?,
            ttl_short: v.get("ttl_short")?.as_u64()?,
            ttl_long: v.get("ttl_long")?.as_u64()?,
        })
    }
}

/// The 64 session-state configurations of C11 (cookie: default attributes, encrypted).
pub fn c11_configs() -> Vec<CaseCfg> {
    let mut v = Vec::new();
    for never_skip in [true, false] {
        for reject in [true, false] {
            for lac in [true, false] {
                for threshold in 0..4u8 {
                    for persistent in [true, false] {
                        v.push(CaseCfg {
                            state: StateSpec { never_skip, reject, loads_and_changes: lac, threshold },
                            cookie: CookieSpec {
                                name: "id".into(),
                                domain: None,
                                path: Some("/".into()),
                                same_site: 2,
                                secure: true,
                                http_only: true,
                                persistent,
                            },
                            crypto: Crypto::Encrypt,
                            percent_encode: true,
                            ttl_short: 3600,
                            ttl_long: 4 * 3600,
                        });
                    }
                }
            }
        }
    }
    v
}

pub const C12_NAMES: [&str; 5] = ["id", "session", "__Host-sid", "my session", "s(1)"];
pub const C12_DOMAINS: [Option<&str>; 3] = [None, Some("example.com"), Some("app.example.org")];
pub const C12_PATHS: [Option<&str>; 3] = [None, Some("/"), Some("/app")];
pub const C12_TTLS: [u64; 3] = [90, 3600, 400 * 24 * 3600];

pub fn name_needs_encoding(name: &str) -> bool {
    name.bytes().any(|b| {
        b <= 0x20
            || b >= 0x7f
            || matches!(
                b,
                b'"' | b'<' | b'>' | b'`' | b'#' | b'?' | b'{' | b'}' | b'/' | b':' | b';' | b'=' | b'@' | b'['
                    | b'\\' | b']' | b'^' | b'|' | b'%' | b'(' | b')' | b','
            )
    })
}

/// The harness' own percent-encoder for cookie names (RFC 6265 cookie-octets, same set as above).
pub fn pct_encode_name(name: &str) -> String {
    let mut out = String::new();
    for b in name.bytes() {
        let s = [b];
        if name_needs_encoding(std::str::from_utf8(&s).unwrap_or("%")) {
            out.push_str(&format!("%{b:02X}"));
        } else {
            out.push(b as char);
        }
    }
    out
}

pub fn c12_random_cfg(rng: &mut Rng) -> CaseCfg {
    let state = StateSpec {
        never_skip: rng.chance(1, 2),
        reject: rng.chance(1, 2),
        loads_and_changes: rng.chance(1, 2),
        threshold: rng.below(4) as u8,
    };
    let ttl = C12_TTLS[rng.below(3) as usize];
    CaseCfg {
        state,
        cookie: CookieSpec {
            name: C12_NAMES[rng.below(C12_NAMES.len() as u64) as usize].to_string(),
            domain: C12_DOMAINS[rng.below(3) as usize].map(|s| s.to_string()),
            path: C12_PATHS[rng.below(3) as usize].map(|s| s.to_string()),
            same_site: rng.below(4) as u8,
            secure: rng.chance(1, 2),
            http_only: rng.chance(1, 2),
            persistent: rng.chance(1, 2),
        },
        crypto: ALL_CRYPTO[rng.below(ALL_CRYPTO.len() as u64) as usize],
        percent_encode: rng.chance(3, 4),
        ttl_short: ttl,
        ttl_long: ttl,
    }
}

fn key_from(rng: &mut Rng) -> Key {
    Key::from(rng.bytes(64))
}

pub fn build_processor(c: &CaseCfg, rng: &mut Rng) -> Processor {
    let mut pc = ProcessorConfig::default();
    pc.percent_encode = c.percent_encode;
    let name = c.cookie.name.clone();
    let rule = |names: Vec<String>, alg: CryptoAlgorithm, key: Key, fallbacks: Vec<FallbackConfig>| CryptoRule {
        cookie_names: names,
        algorithm: alg,
        key,
        fallbacks,
    };
    use CryptoAlgorithm::{Encryption as E, Signing as S};
    match c.crypto {
        Crypto::NoRules => {}
        Crypto::Sign => pc.crypto_rules.push(rule(vec![name], S, key_from(rng), vec![])),
        Crypto::Encrypt => pc.crypto_rules.push(rule(vec![name], E, key_from(rng), vec![])),
        Crypto::OtherNameOnly => {
            pc.crypto_rules.push(rule(vec![format!("{name}_other")], E, key_from(rng), vec![]))
        }
        Crypto::SignWithEncryptFallback => pc.crypto_rules.push(rule(
            vec![name],
            S,
            key_from(rng),
            vec![FallbackConfig { key: key_from(rng), algorithm: E }],
        )),
        Crypto::EncryptWithSignFallback => pc.crypto_rules.push(rule(
            vec![name],
            E,
            key_from(rng),
            vec![FallbackConfig { key: key_from(rng), algorithm: S }],
        )),
        Crypto::MultiNameEncrypt => {
            pc.crypto_rules.push(rule(vec!["csrf".into(), name, "flash".into()], E, key_from(rng), vec![]))
        }
        Crypto::MultiNameSign => {
            pc.crypto_rules.push(rule(vec!["csrf".into(), name, "flash".into()], S, key_from(rng), vec![]))
        }
        Crypto::DupSignThenEncrypt => {
            pc.crypto_rules.push(rule(vec![name.clone()], S, key_from(rng), vec![]));
            pc.crypto_rules.push(rule(vec![name], E, key_from(rng), vec![]));
        }
        Crypto::DupEncryptThenSign => {
            pc.crypto_rules.push(rule(vec![name.clone()], E, key_from(rng), vec![]));
            pc.crypto_rules.push(rule(vec![name], S, key_from(rng), vec![]));
        }
        Crypto::EncodedNameEncrypt => {
            pc.crypto_rules.push(rule(vec![pct_encode_name(&name)], E, key_from(rng), vec![]))
        }
    }
    pc.into()
}

pub fn build_session_config(c: &CaseCfg, ttl: u64) -> SessionConfig {
    let mut sc = SessionConfig::default();
    sc.cookie.name = c.cookie.name.clone();
    sc.cookie.domain = c.cookie.domain.clone();
    sc.cookie.path = c.cookie.path.clone();
    sc.cookie.secure = c.cookie.secure;
    sc.cookie.http_only = c.cookie.http_only;
    sc.cookie.same_site = match c.cookie.same_site {
        0 => None,
        1 => Some(SameSite::Strict),
        2 => Some(SameSite::Lax),
        _ => Some(SameSite::None),
    };
    sc.cookie.kind = if c.cookie.persistent { SessionCookieKind::Persistent } else { SessionCookieKind::Session };
    sc.state.ttl = Duration::from_secs(ttl);
    sc.state.extend_ttl = if c.state.loads_and_changes {
        TtlExtensionTrigger::OnStateLoadsAndChanges
    } else {
        TtlExtensionTrigger::OnStateChanges
    };
    sc.state.ttl_extension_threshold = match c.state.threshold {
        0 => None,
        1 => Some(TtlExtensionThreshold::new(0.0).unwrap()),
        2 => Some(TtlExtensionThreshold::new(0.5).unwrap()),
        _ => Some(TtlExtensionThreshold::new(1.0).unwrap()),
    };
    sc.state.server_state_creation =
        if c.state.never_skip { ServerStateCreation::NeverSkip } else { ServerStateCreation::SkipIfEmpty };
    sc.state.missing_server_state =
        if c.state.reject { MissingServerState::Reject } else { MissingServerState::Allow };
    sc
}

pub struct Env {
    pub case: CaseCfg,
    pub processor: Processor,
    pub cfg_short: SessionConfig,
    pub cfg_long: SessionConfig,
    pub store: SessionStore,
    /// Direct, unlogged access to the real store for the monitor's own read-only observations.
    pub inner: Arc<dyn SessionStorageBackend>,
    pub log: MonLog,
}

impl Env {
    pub fn new(case: &CaseCfg, key_rng: &mut Rng, backend: Option<Arc<dyn SessionStorageBackend>>) -> Env {
        let inner: Arc<dyn SessionStorageBackend> = match backend {
            Some(b) => b,
            None => Arc::new(InMemorySessionStore::new()),
        };
        let log = MonLog::default();
        let store = SessionStore::new(Monitor { inner: inner.clone(), log: log.clone() });
        Env {
            case: case.clone(),
            processor: build_processor(case, key_rng),
            cfg_short: build_session_config(case, case.ttl_short),
            cfg_long: build_session_config(case, case.ttl_long),
            store,
            inner,
            log,
        }
    }
}
