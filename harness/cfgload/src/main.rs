//! C18 loader: one process = one `ConfigLoader::load` call, because the environment and the
//! current directory are process-global. The Python wrapper (`checks/c18.py`) prepares the
//! directory tree and the child's environment, then runs
//!
//!     cfgload --variant strict|plain|lenient [--dir PATH] [--profile dev|prod|staging_eu]
//!
//! `--dir` absent  => `configuration_dir` is not called (documented default `configuration/`).
//! `--profile` absent => `.profile()` is not called (profile comes from `PX_PROFILE`).
//!
//! Output: exactly one JSON line on stdout:
//!   {"ok": <loaded value>} | {"error": "<error chain>"} | {"panic": "<message>"}
use pavex::config::{ConfigLoader, ConfigProfile};
use serde::{Deserialize, Serialize};

#[derive(ConfigProfile, Debug, Clone, Copy, PartialEq, Eq)]
pub enum Profile {
    #[px(profile = "dev")]
    Development,
    #[px(profile = "prod")]
    Production,
    // Default naming: snake_case of the variant name => "staging_eu".
    StagingEu,
}

// ---------------------------------------------------------------- strict: deny_unknown_fields
#[derive(Debug, Clone, Deserialize, Serialize)]
#[serde(deny_unknown_fields)]
pub struct StrictCfg {
    top: String,
    tags: Vec<String>,
    workers: u32,
    server: StrictServer,
    db: StrictDb,
}
#[derive(Debug, Clone, Deserialize, Serialize)]
#[serde(deny_unknown_fields)]
pub struct StrictServer {
    port: u16,
    host: String,
    allowed_origins: Vec<String>,
    tls: StrictTls,
}
#[derive(Debug, Clone, Deserialize, Serialize)]
#[serde(deny_unknown_fields)]
pub struct StrictTls {
    cert: String,
}
#[derive(Debug, Clone, Deserialize, Serialize)]
#[serde(deny_unknown_fields)]
pub struct StrictDb {
    name: String,
    pool_size: i64,
    timeout_ms: u64,
}

// ---------------------------------------------------------------- plain: all required, unknown keys tolerated
#[derive(Debug, Clone, Deserialize, Serialize)]
pub struct PlainCfg {
    top: String,
    tags: Vec<String>,
    workers: u32,
    server: PlainServer,
    db: PlainDb,
}
#[derive(Debug, Clone, Deserialize, Serialize)]
pub struct PlainServer {
    port: u16,
    host: String,
    allowed_origins: Vec<String>,
    tls: PlainTls,
}
#[derive(Debug, Clone, Deserialize, Serialize)]
pub struct PlainTls {
    cert: String,
}
#[derive(Debug, Clone, Deserialize, Serialize)]
pub struct PlainDb {
    name: String,
    pool_size: i64,
    timeout_ms: u64,
}

// ---------------------------------------------------------------- lenient: some keys optional / defaulted
fn default_workers() -> u32 {
    424242
}
#[derive(Debug, Clone, Deserialize, Serialize)]
pub struct LenientCfg {
    top: Option<String>,
    #[serde(default)]
    tags: Vec<String>,
    #[serde(default = "default_workers")]
    workers: u32,
    server: LenientServer,
    db: LenientDb,
}
#[derive(Debug, Clone, Deserialize, Serialize)]
pub struct LenientServer {
    port: u16,
    host: Option<String>,
    allowed_origins: Option<Vec<String>>,
    #[serde(default)]
    tls: LenientTls,
}
#[derive(Debug, Clone, Default, Deserialize, Serialize)]
pub struct LenientTls {
    cert: Option<String>,
}
#[derive(Debug, Clone, Deserialize, Serialize)]
pub struct LenientDb {
    name: String,
    pool_size: Option<i64>,
    timeout_ms: u64,
}

fn error_chain(e: &dyn std::error::Error) -> String {
    let mut s = e.to_string();
    let mut cur = e.source();
    while let Some(c) = cur {
        s.push_str(" | ");
        s.push_str(&c.to_string());
        cur = c.source();
    }
    s
}

fn load<T: serde::de::DeserializeOwned + Serialize>(
    dir: Option<&str>,
    profile: Option<Profile>,
) -> serde_json::Value {
    let mut loader = ConfigLoader::<Profile>::new();
    if let Some(d) = dir {
        loader = loader.configuration_dir(d);
    }
    if let Some(p) = profile {
        loader = loader.profile(p);
    }
    match loader.load::<T>() {
        Ok(v) => serde_json::json!({"ok": serde_json::to_value(&v).unwrap()}),
        Err(e) => serde_json::json!({"error": error_chain(&e)}),
    }
}

fn main() {
    let args: Vec<String> = std::env::args().skip(1).collect();
    let mut variant = String::from("plain");
    let mut dir: Option<String> = None;
    let mut profile: Option<Profile> = None;
    let mut i = 0;
    while i < args.len() {
        match args[i].as_str() {
            "--variant" => {
                variant = args[i + 1].clone();
                i += 2;
            }
            "--dir" => {
                dir = Some(args[i + 1].clone());
                i += 2;
            }
            "--profile" => {
                // The explicit profile is built by the harness itself (not via the code under test's
                // FromStr), so that `.profile(p)` is exercised independently of `PX_PROFILE` parsing.
                profile = Some(match args[i + 1].as_str() {
                    "dev" => Profile::Development,
                    "prod" => Profile::Production,
                    "staging_eu" => Profile::StagingEu,
                    other => {
                        eprintln!("unknown explicit profile {other}");
                        std::process::exit(3);
                    }
                });
                i += 2;
            }
            other => {
                eprintln!("unknown argument {other}");
                std::process::exit(3);
            }
        }
    }
    std::panic::set_hook(Box::new(|_| {}));
    let res = std::panic::catch_unwind(|| match variant.as_str() {
        "strict" => load::<StrictCfg>(dir.as_deref(), profile),
        "plain" => load::<PlainCfg>(dir.as_deref(), profile),
        "lenient" => load::<LenientCfg>(dir.as_deref(), profile),
        other => {
            eprintln!("unknown variant {other}");
            std::process::exit(3);
        }
    });
    let out = match res {
        Ok(v) => v,
        Err(p) => {
            let msg = if let Some(s) = p.downcast_ref::<&str>() {
                s.to_string()
            } else if let Some(s) = p.downcast_ref::<String>() {
                s.clone()
            } else {
                "<non-string panic payload>".to_string()
            };
            serde_json::json!({"panic": msg})
        }
    };
    println!("{out}");
}
