//! C18 loader: one process = one `ConfigLoader::load` call, because the environment and the
//! current directory are process-global. The Python wrapper (`checks/c18.py`) prepares the
//! directory tree and the child's environment, then runs
//!
//!     cfgload --variant strict|plain|lenient [--dir PATH] [--profile NAME] [--profile-type derived|free]
//!
//! `--dir` absent  => `configuration_dir` is not called (documented default `configuration/`).
//! `--profile` absent => `.profile()` is not called (profile comes from `PX_PROFILE`).
//!
//! Output: exactly one JSON line on stdout:
//!   {"ok": <loaded value>} | {"error": "<error chain>"} | {"panic": "<message>"}
use pavex::config::{ConfigLoader, ConfigProfile};
use serde::{Deserialize, Serialize};

#[derive(ConfigProfile, Debug, Clone, Copy, PartialEq, Eq)]
pub enum Profile {
    #[px(profile = "dev")]
    Development,
    #[px(profile = "prod")]
    Production,
    // Default naming: snake_case of the variant name => "staging_eu".
    StagingEu,
}

/// A hand-written profile type (the documentation allows implementing `ConfigProfile` manually): the profile name is
/// free text, so names the derive macro cannot produce — with dots, dashes, upper case — select `<name>.yml` too.
#[derive(Debug, Clone, PartialEq, Eq)]
pub struct FreeProfile(String);

pub const FREE_PROFILES: &[&str] = &["prod.eu", "prod.us", "v1.2", "my-profile", "Stage_2", "a.b.c"];

impl std::str::FromStr for FreeProfile {
    type Err = String;
    fn from_str(s: &str) -> Result<Self, String> {
        if FREE_PROFILES.contains(&s) {
            Ok(FreeProfile(s.to_string()))
        } else {
            Err(format!("`{s}` is not a profile of this application"))
        }
    }
}
impl AsRef<str> for FreeProfile {
    fn as_ref(&self) -> &str {
        &self.0
    }
}
impl ConfigProfile for FreeProfile {}

// ---------------------------------------------------------------- strict: deny_unknown_fields
#[derive(Debug, Clone, Deserialize, Serialize)]
#[serde(deny_unknown_fields)]
pub struct StrictCfg {
    top: String,
    tags: Vec<String>,
    workers: u32,
    server: StrictServer,
    db: StrictDb,
    /// keys whose names start like the variable that selects the profile (`PX_PROFILE`): ordinary keys all the same
    profile_dir: String,
    profiler: StrictProfiler,
}
#[derive(Debug, Clone, Deserialize, Serialize)]
#[serde(deny_unknown_fields)]
pub struct StrictProfiler {
    rate: u32,
}
#[derive(Debug, Clone, Deserialize, Serialize)]
#[serde(deny_unknown_fields)]
pub struct StrictServer {
    port: u16,
    host: String,
    allowed_origins: Vec<String>,
    tls: StrictTls,
}
#[derive(Debug, Clone, Deserialize, Serialize)]
#[serde(deny_unknown_fields)]
pub struct StrictTls {
    cert: String,
}
#[derive(Debug, Clone, Deserialize, Serialize)]
#[serde(deny_unknown_fields)]
pub struct StrictDb {
    name: String,
    pool_size: i64,
    timeout_ms: u64,
}

// ---------------------------------------------------------------- plain: all required, unknown keys tolerated
#[derive(Debug, Clone, Deserialize, Serialize)]
pub struct PlainCfg {
    top: String,
    tags: Vec<String>,
    workers: u32,
    server: PlainServer,
    db: PlainDb,
    /// keys whose names start like the variable that selects the profile (`PX_PROFILE`): ordinary keys all the same
    profile_dir: String,
    profiler: PlainProfiler,
}
#[derive(Debug, Clone, Deserialize, Serialize)]
pub struct PlainProfiler {
    rate: u32,
}
#[derive(Debug, Clone, Deserialize, Serialize)]
pub struct PlainServer {
    port: u16,
    host: String,
    allowed_origins: Vec<String>,
    tls: PlainTls,
}
#[derive(Debug, Clone, Deserialize, Serialize)]
pub struct PlainTls {
    cert: String,
}
#[derive(Debug, Clone, Deserialize, Serialize)]
pub struct PlainDb {
    name: String,
    pool_size: i64,
    timeout_ms: u64,
}

// ---------------------------------------------------------------- lenient: some keys optional / defaulted
fn default_workers() -> u32 {
    424242
}
#[derive(Debug, Clone, Deserialize, Serialize)]
pub struct LenientCfg {
    top: Option<String>,
    #[serde(default)]
    tags: Vec<String>,
    #[serde(default = "default_workers")]
    workers: u32,
    server: LenientServer,
    db: LenientDb,
    /// keys whose names start like the variable that selects the profile (`PX_PROFILE`): ordinary keys all the same
    profile_dir: String,
    profiler: LenientProfiler,
}
#[derive(Debug, Clone, Deserialize, Serialize)]
pub struct LenientProfiler {
    rate: u32,
}
#[derive(Debug, Clone, Deserialize, Serialize)]
pub struct LenientServer {
    port: u16,
    host: Option<String>,
    allowed_origins: Option<Vec<String>>,
    #[serde(default)]
    tls: LenientTls,
}
#[derive(Debug, Clone, Default, Deserialize, Serialize)]
pub struct LenientTls {
    cert: Option<String>,
}
#[derive(Debug, Clone, Deserialize, Serialize)]
pub struct LenientDb {
    name: String,
    pool_size: Option<i64>,
    timeout_ms: u64,
}

fn error_chain(e: &dyn std::error::Error) -> String {
    let mut s = e.to_string();
    let mut cur = e.source();
    while let Some(c) = cur {
        s.push_str(" | ");
        s.push_str(&c.to_string());
        cur = c.source();
    }
    s
}

fn load<T: serde::de::DeserializeOwned + Serialize, P: ConfigProfile>(
    dir: Option<&str>,
    profile: Option<P>,
) -> serde_json::Value {
    let mut loader = ConfigLoader::<P>::new();
    // the two builder calls commute: `CFGLOAD_PROFILE_FIRST=1` (set by the checker for half of the cases) makes the
    // harness call `.profile(..)` before `.configuration_dir(..)`
    if std::env::var_os("CFGLOAD_PROFILE_FIRST").is_some() {
        if let Some(p) = profile {
            loader = loader.profile(p);
        }
        if let Some(d) = dir {
            loader = loader.configuration_dir(d);
        }
    } else {
        if let Some(d) = dir {
            loader = loader.configuration_dir(d);
        }
        if let Some(p) = profile {
            loader = loader.profile(p);
        }
    }
    match loader.load::<T>() {
        Ok(v) => serde_json::json!({"ok": serde_json::to_value(&v).unwrap()}),
        Err(e) => serde_json::json!({"error": error_chain(&e)}),
    }
}

fn main() {
    let args: Vec<String> = std::env::args().skip(1).collect();
    let mut variant = String::from("plain");
    let mut dir: Option<String> = None;
    let mut profile: Option<Profile> = None;
    let mut free_profile: Option<FreeProfile> = None;
    let mut free = false;
    let mut i = 0;
    while i < args.len() {
        match args[i].as_str() {
            "--variant" => {
                variant = args[i + 1].clone();
                i += 2;
            }
            "--dir" => {
                dir = Some(args[i + 1].clone());
                i += 2;
            }
            "--profile" => {
                // The explicit profile is built by the harness itself (not via the code under test's
                // FromStr), so that `.profile(p)` is exercised independently of `PX_PROFILE` parsing.
                profile = Some(match args[i + 1].as_str() {
                    "dev" => Profile::Development,
                    "prod" => Profile::Production,
                    "staging_eu" => Profile::StagingEu,
                    other if FREE_PROFILES.contains(&other) => {
                        free_profile = Some(FreeProfile(other.to_string()));
                        Profile::Development
                    }
                    other => {
                        eprintln!("unknown explicit profile {other}");
                        std::process::exit(3);
                    }
                });
                i += 2;
            }
            "--profile-type" => {
                free = args[i + 1] == "free";
                i += 2;
            }
            other => {
                eprintln!("unknown argument {other}");
                std::process::exit(3);
            }
        }
    }
    std::panic::set_hook(Box::new(|_| {}));
    let res = std::panic::catch_unwind(|| match (variant.as_str(), free) {
        ("strict", false) => load::<StrictCfg, _>(dir.as_deref(), profile),
        ("plain", false) => load::<PlainCfg, _>(dir.as_deref(), profile),
        ("lenient", false) => load::<LenientCfg, _>(dir.as_deref(), profile),
        ("strict", true) => load::<StrictCfg, _>(dir.as_deref(), free_profile.clone()),
        ("plain", true) => load::<PlainCfg, _>(dir.as_deref(), free_profile.clone()),
        ("lenient", true) => load::<LenientCfg, _>(dir.as_deref(), free_profile.clone()),
        (other, _) => {
            eprintln!("unknown variant {other}");
            std::process::exit(3);
        }
    });
    let out = match res {
        Ok(v) => v,
        Err(p) => {
            let msg = if let Some(s) = p.downcast_ref::<&str>() {
                s.to_string()
            } else if let Some(s) = p.downcast_ref::<String>() {
                s.clone()
            } else {
                "<non-string panic payload>".to_string()
            };
            serde_json::json!({"panic": msg})
        }
    };
    println!("{out}");
}
